"""C02 — only explicitly exposed, non-private members are remotely reachable."""
import ast
import copy
import hashlib
import json
import os

import common
from common import cps

ID = "C02"
LEAN_MODEL_TARGETS = ["drv_c02"]
LEAN_PROOF_TARGETS = ["PyroProps.C02", "PyroProps.C02Src"]
AUDIT_FILES = ["PyroModel/PyLib.lean", "PyroModel/Expose.lean", "PyroModel/Gen/C02.lean", "PyroProofs/Expose.lean", "PyroProps/C02.lean",
               "PyroModel/Gen/C02Src.lean", "PyroModel/ExposeCache.lean", "PyroProps/C02Src.lean"]
THEOREMS = ["Pyro.C02.C02_translated_private", "Pyro.C02.C02_served_sound", "Pyro.C02.C02_refused_no_effect_partial", "Pyro.C02.C02_refused_no_effect_not_full",
            "Pyro.C02.C02_batch_refused", "Pyro.C02.C02_history_no_memory", "Pyro.C02.C02_history_sound", "Pyro.C02.C02_metadata_cache",
            "Pyro.C02.C02_served_complete", "Pyro.C02.C02_metadata_exact",
            "Pyro.C02.C02_expose_marks", "Pyro.C02.C02_inherited_unexposed_refused",
            "Pyro.C02.C02_private_refused", "Pyro.C02.C02_nonstring_refused", "Pyro.C02.C02_dotted",
            "Pyro.C02.C02_unfixed_call_gate_unsound", "Pyro.C02.C02_unfixed_attr_gate_unsound",
            "Pyro.C02.C02_gen_reserved", "Pyro.C02.C02_gen_gates", "Pyro.C02.C02_gen_probes",
            # round 5: the three gates transcribed from the source (harness/props/c02_tr.py -> Gen/C02Src.lean)
            "Pyro.C02.C02_getAttribute_translated", "Pyro.C02.C02_getProp_translated", "Pyro.C02.C02_setProp_translated",
            "Pyro.C02.C02_source_gates_are_model", "Pyro.C02.C02_source_private_refused", "Pyro.C02.C02_source_call_gate_sound",
            "Pyro.C02.C02_source_call_gate_no_effect", "Pyro.C02.C02_source_prop_gates_sound",
            # round 5: member-list cache with failed / overlapping computations (PyroModel/ExposeCache.lean)
            "Pyro.C02.C02_cache_failed_first", "Pyro.C02.C02_cache_never_partial", "Pyro.C02.C02_cache_overlap_exact",
            "Pyro.C02.C02_cache_refines"]
SUITES = ["dispatch", "history", "metadata", "build"]
RULE = ("class shapes generated from VERIF_SEED: 1-3 classes in an inheritance chain, members drawn from {function, staticmethod, "
        "classmethod, property with any of getter/setter/deleter, plain attribute holding data / a helper instance / a helper class} "
        "under public, private, dunder, reserved-dunder, unicode look-alike and dotted keys, exposed per member, per property, per "
        "class or not at all, oneway or not, __name__ equal to or different from the key, instance attributes that may shadow class "
        "members; materialised with type() and the real decorators; requests = every key, its _/__/dunder/dotted/look-alike variants, "
        "reserved and ambient dunder names, non-string names, x {call, oneway call, attribute read, attribute write, batch, oneway "
        "batch, short argument lists, attribute requests with extra falsy arguments} sent as raw MSG_INVOKE to Daemon.handleRequest; "
        "the same names through marshal / json / msgpack payloads written with the libraries themselves, also as bytes objects; objects "
        "registered as instance, weakly (weak=True) or as a class; container-like targets with __len__ / __bool__, truthy or falsy; "
        "30 % of the classes carry a lazily resolved plain class attribute that makes the first 1-2 member-list computations raise part-way "
        "or lets a second get_metadata overlap the first (events, no timing): the first list told must be exact; "
        "then a history of 0-4 run-time changes (instance attribute set/deleted, class member replaced/deleted, aimed at names served "
        "at that moment) made after the metadata was fetched, each followed by requests judged against the object's state of that moment, with re-advertisements (cached, or after "
        "resetMetadataCache: judged exact against the present state). A request is non-trivial when target code ran "
        "or the real gate passed the private-name test (reply is not the 'private' refusal); distinct = distinct (shape, request)")
ASSUMPTIONS = ["Python object model as modelled in PyroModel/Expose.lean: data descriptor of the type > instance __dict__ > other "
               "class attribute, MRO order, getattr(cls, name) yields the property object unevaluated, a bound method's "
               "_pyroExposed is its function's",
               "keys of one class dict are distinct; the target class defines no __getattr__/__getattribute__/__setattr__ of its own",
               "'private' is read as Pyro's is_private_attribute: reserved dunder table, or leading underscore unless the name "
               "is of dunder form with more than 4 characters (tests/test_server.py::testIsPrivateName)",
               "server configuration as shipped; in particular DETAILED_TRACEBACK=False (with it enabled the traceback formatter calls repr() "
               "on the locals of the failing frames, i.e. runs the target's __repr__ for every refused request — reported, not encoded)",
               "a property counts as explicitly exposed when the function expose() marks for it (fget or fset or fdel) is marked"]
TRUSTED = ["harness/props/c02_real.py: FakeConn stands for the socket connection; classes made with type() stand for class statements",
           "the probe table in Gen/C02.lean is produced by calling the real decorators and gate functions at extraction time; its row "
           "decoder exists twice (probe_shape in c02.py, decodeRow in PyroProps/C02.lean)",
           "harness/props/c02_tr.py: the translator of the three gates (refuses what it does not understand); its atoms are the model's "
           "abstract operations of Python attribute lookup (lookupType, getattrInst, isDataDesc, objMarked) as listed under ASSUMPTIONS"]

CORPUS = os.path.join(common.VERIF, "corpus", "C02")

# the statement's "reserved dunder names" — kept here by hand, independent of /repo (the Lean side has its own copy)
SPEC_RESERVED = frozenset("""__init__ __init_subclass__ __class__ __module__ __weakref__ __call__ __new__ __del__ __repr__
__str__ __format__ __nonzero__ __bool__ __coerce__ __cmp__ __eq__ __ne__ __hash__ __ge__ __gt__ __le__ __lt__
__dir__ __enter__ __exit__ __copy__ __deepcopy__ __sizeof__ __getattr__ __setattr__ __hasattr__ __getattribute__ __delattr__
__instancecheck__ __subclasscheck__ __getinitargs__ __getnewargs__ __getstate__ __setstate__ __reduce__ __reduce_ex__
__subclasshook__""".split())


# =========================================================================================
# step A: extractor
# =========================================================================================
GATE_FUNCS = ["is_private_attribute", "oneway", "expose", "_get_attribute", "_get_exposed_members",
              "_get_exposed_property_value", "_set_exposed_property_value"]


def extract():
    """extracted facts + the Lean translation of is_private_attribute (regenerated from the source on every run)"""
    import py2lean
    common.repo_on_path()
    from Pyro5 import server
    text = _extract_facts()
    trans = py2lean.translate_function(server, _string_domain_source(open(server.__file__).read(), "is_private_attribute"),
                                       "is_private_attribute", "is_private_attribute", ["str"])
    marker = "end Pyro.Gen.C02"
    i = text.rindex(marker)
    text = text[:i] + trans + text[i:]
    if "import PyroModel.PyLib" not in text:
        text = "import PyroModel.PyLib\n" + text
    # the three gates, transcribed (sound by refusal: Untranslatable -> the runner reports the extractor as a broken tie)
    from props import c02_tr
    common.write_if_changed(os.path.join(common.LEAN, "PyroModel", "Gen", "C02Src.lean"), c02_tr.translate(server))
    return text


# ---- behaviour probes: the real functions are CALLED at extraction time; nothing below depends on how they are written ----------
PROBE_KEYS = ["m", "_m", "__m__", "__call__"]
PROBE_FNAMES = [None, "pub", "_p"]          # None: __name__ = the key


def _probe_val(vkind, exposed, call, ids):
    if vkind == 0:
        return {"v": "data"}
    if vkind == 3:
        return {"v": "fn", "f": {"name": "plain", "fid": ids[2], "expose": bool(exposed), "oneway": False}}
    return {"v": "inst" if vkind == 1 else "cls", "expose": bool(exposed), "call": bool(call), "callId": ids[0], "initId": ids[1]}


def probe_shape(code):
    """row code (15 numbers, mirrored by `decodeRow` in PyroProps/C02.lean) -> (shape description, key)"""
    ce, kk, bk, k, a1, a2, a3, a4, a5, _a6, _a7, ip, iv, ie, ic = code
    key = PROBE_KEYS[kk]

    def fn(nk, fid, expose, oneway=False):
        return {"name": PROBE_FNAMES[nk] or key, "fid": fid, "expose": bool(expose), "oneway": bool(oneway)}
    if k in (0, 1, 2):
        member = {"k": ("func", "static", "clsm")[k], "f": fn(a3, 1, a1, a2)}
    elif k == 3:
        member = {"k": "prop", "expose": bool(a1), "g": fn(a5, 1, a2 == 2) if a2 else None,
                  "s": fn(a5, 2, a3 == 2) if a3 else None, "d": fn(a5, 3, a4 == 2) if a4 else None}
    else:
        member = {"k": "attr", "v": _probe_val(a1, a2, a3, (4, 5, 0))}
    if bk == 0:
        classes = [{"expose": bool(ce), "members": [[key, member]]}]
    else:       # the member lives in an unexposed base class, the registered subclass is empty (and exposed as a class iff ce)
        classes = [{"expose": bool(ce), "members": []}, {"expose": False, "members": [[key, member]]}]
    inst = [[key, _probe_val(iv, ie, ic, (6, 7, 8))]] if ip else []
    return {"classes": classes, "inst": inst}, key


def probe_codes():
    """the decision table's inputs: every member kind x marks, under public / private / dunder / reserved keys, class exposed or
    not, inherited from an unexposed base, shadowed by instance attributes"""
    M = []
    for k in (0, 1, 2):
        for e in (0, 1):
            for o in ((0, 1) if k == 0 else (0,)):
                M.append([k, e, o, 0, 0, 0, 0, 0])
    M += [[0, 1, 0, 1, 0, 0, 0, 0], [0, 1, 0, 2, 0, 0, 0, 0], [0, 0, 0, 2, 0, 0, 0, 0]]
    for ex in (0, 1):
        for g in (0, 1, 2):
            for sx in (0, 1, 2):
                for d in (0, 2):
                    M.append([3, ex, g, sx, d, 0, 0, 0])
    M += [[3, 1, 1, 0, 0, 2, 0, 0], [3, 0, 2, 1, 0, 1, 0, 0], [3, 1, 0, 1, 0, 1, 0, 0]]
    M += [[4, 0, 0, 0, 0, 0, 0, 0]] + [[4, 1, e, c, 0, 0, 0, 0] for e in (0, 1) for c in (0, 1)] + [[4, 2, e, 1, 0, 0, 0, 0] for e in (0, 1)]
    rows = []
    for ce in (0, 1):
        for kk in (0, 1, 2, 3):
            rows += [[ce, kk, 0] + m + [0, 0, 0, 0] for m in M]
        rows += [[ce, 0, 1] + m + [0, 0, 0, 0] for m in M]
    for inst in ([1, 0, 0, 0], [1, 1, 1, 1], [1, 1, 0, 1], [1, 3, 0, 0], [1, 3, 1, 0], [1, 2, 1, 0]):
        rows += [[0, 0, 0] + m + inst for m in M]
    return rows


def _err_code(x):
    msg = str(x)
    if isinstance(x, AttributeError):
        if msg.startswith("attempt to access private attribute") or msg.startswith("exposing private names"):
            return 1
        if msg.startswith("attempt to access unexposed attribute"):
            return 2
        if msg.startswith("attempt to access unexposed or unknown remote attribute"):
            return 3
        return 4
    if isinstance(x, TypeError):
        return 5
    if isinstance(x, IndexError):
        return 6
    return 7


class _Prober:
    def __init__(self):
        from props import c02_real
        self.real = c02_real.Real(with_daemon=False)
        self.server = self.real.server
        self.n = 0

    def close(self):
        self.real.close()

    def build(self, shape):
        self.n += 1
        names = ["P%d_%d" % (self.n, i) for i in range(max(1, len(shape["classes"])))]
        try:
            return self.real._materialise(shape, names)
        finally:
            del self.real.log[:]

    def gate(self, fn, call_result=False):
        """[0 | error code | 8 = passed the gate but is not callable] + effect ids"""
        log = self.real.log
        del log[:]
        try:
            v = fn()
        except Exception as x:
            return [_err_code(x)] + list(log)
        if call_result:
            if not callable(v):
                return [8] + list(log)
            try:
                v()
            except Exception as x:
                return [7] + list(log)
        return [0] + list(log)

    def row(self, code):
        shape, key = probe_shape(code)
        try:
            cls, obj, classes = self.build(shape)
        except AttributeError as x:
            return [9, _err_code(x)]
        sv = self.server
        out = self.gate(lambda: sv._get_attribute(obj, key), call_result=True) + [100]
        out += self.gate(lambda: sv._get_exposed_property_value(obj, key)) + [100]
        out += self.gate(lambda: sv._set_exposed_property_value(obj, key, 0)) + [100]
        md = sv._get_exposed_members(obj)
        out += [int(key in md["methods"]), int(key in md["oneway"]), int(key in md["attrs"])]
        for c in cls.__mro__:
            sv._reset_exposed_members(c)
        del self.real.log[:]
        return out

    def ran(self, shape, fn):
        """does calling fn(obj) run any target code (whatever it returns / raises)?"""
        cls, obj, classes = self.build(shape)
        log = self.real.log
        try:
            fn(obj)
        except Exception:
            pass
        ran = bool(log)
        del log[:]
        return ran


def _dispatch_facts(tree):
    """Daemon.handleRequest: which gate is called where, with which of the peer-controlled values — local names are normalised to
    their roles (the 4 targets of `.. = <x>.loadsCall(..)`: objId, method, vargs, kwargs; the batch loop rebinds the last three)"""
    daemon = [n for n in tree.body if isinstance(n, ast.ClassDef) and n.name == "Daemon"][0]
    hr = [n for n in daemon.body if isinstance(n, ast.FunctionDef) and n.name == "handleRequest"][0]
    roles = {}
    for n in ast.walk(hr):
        if isinstance(n, ast.Assign) and len(n.targets) == 1 and isinstance(n.targets[0], ast.Tuple) and len(n.targets[0].elts) == 4 \
                and all(isinstance(e, ast.Name) for e in n.targets[0].elts) and isinstance(n.value, ast.Call) \
                and getattr(n.value.func, "attr", "").lstrip("_").endswith(("loadsCall", "deserializeBlobArgs")):
            for e, r in zip(n.targets[0].elts, ("objId", "method", "vargs", "kwargs")):
                roles.setdefault(e.id, r)
    if sorted(roles.values()) != ["kwargs", "method", "objId", "vargs"]:
        raise RuntimeError("handleRequest: cannot find the request fields (targets of loadsCall)")
    inv = {r: n for n, r in roles.items()}
    for n in ast.walk(hr):      # for <method>, <vargs>, <kwargs> in <vargs>:
        if isinstance(n, ast.For) and isinstance(n.target, ast.Tuple) and len(n.target.elts) == 3 \
                and getattr(n.iter, "id", None) == inv["vargs"] and all(isinstance(e, ast.Name) for e in n.target.elts):
            for e, r in zip(n.target.elts, ("method", "vargs", "kwargs")):
                roles.setdefault(e.id, r)
    gates = ("_get_attribute", "_get_exposed_property_value", "_set_exposed_property_value")
    calls = sorted((c for c in ast.walk(hr) if isinstance(c, ast.Call) and getattr(c.func, "id", None) in gates),
                   key=lambda c: (c.lineno, c.col_offset))

    class Norm(ast.NodeTransformer):
        def visit_Name(self, node):
            return ast.copy_location(ast.Name(id=roles.get(node.id, node.id), ctx=node.ctx), node)

    def arg_text(c):
        parts = []
        for i, a in enumerate(c.args):
            if i == 0 and isinstance(a, ast.Name):
                parts.append("obj")           # whatever the local holding the target object is called
            else:
                parts.append(ast.unparse(Norm().visit(copy.deepcopy(a))))
        parts += ["%s=%s" % (k.arg, ast.unparse(Norm().visit(copy.deepcopy(k.value)))) for k in c.keywords]
        return ", ".join(parts)
    consts = sorted(((c.lineno, c.comparators[0].value) for c in ast.walk(hr) if isinstance(c, ast.Compare)
                     and roles.get(getattr(c.left, "id", None)) == "method" and len(c.ops) == 1 and isinstance(c.ops[0], ast.Eq)
                     and isinstance(c.comparators[0], ast.Constant)))
    return [c.func.id for c in calls], [arg_text(c) for c in calls], [c[1] for c in consts]


def _string_domain_source(source, func_name):
    """the predicate restricted to its string domain: a leading guard `if not isinstance(<param>, str): raise ...` is the
    NON-string branch (modelled by the probed fact privateGateNonStrTypeError) and is left out of the translation"""
    tree = ast.parse(source)
    fn = next(n for n in tree.body if isinstance(n, ast.FunctionDef) and n.name == func_name)
    param = fn.args.args[0].arg
    body = list(fn.body)
    i = 1 if body and isinstance(body[0], ast.Expr) and isinstance(getattr(body[0], "value", None), ast.Constant) else 0

    def is_guard(st):
        if not (isinstance(st, ast.If) and not st.orelse and all(isinstance(x, ast.Raise) for x in st.body)):
            return False
        t = st.test
        if isinstance(t, ast.UnaryOp) and isinstance(t.op, ast.Not):
            t = t.operand
        else:
            return False
        return isinstance(t, ast.Call) and getattr(t.func, "id", None) == "isinstance" and len(t.args) == 2 \
            and getattr(t.args[0], "id", None) == param and getattr(t.args[1], "id", None) == "str"
    while i < len(body) and is_guard(body[i]):
        del body[i]
    fn.body = body
    return ast.unparse(fn) + "\n"


def _extract_facts():
    common.repo_on_path()
    from Pyro5 import server
    path = server.__file__
    tree = ast.parse(open(path).read())
    for f in GATE_FUNCS:
        if not callable(getattr(server, f, None)):
            raise RuntimeError("server.py: function %s not found" % f)
    reserved = sorted(server._private_dunder_methods)
    if not all(isinstance(x, str) for x in reserved):
        raise RuntimeError("_private_dunder_methods holds non-strings")

    def fn(name, fid, expose=False):
        return {"name": name, "fid": fid, "expose": expose, "oneway": False}
    pr = _Prober()
    try:
        sv = pr.server
        # F2a: does a method-call request evaluate a property of the object (run its getter)?  unexposed and exposed property
        props = {"classes": [{"expose": False, "members": [
            ["p", {"k": "prop", "expose": False, "g": fn("p", 1), "s": None, "d": None}],
            ["q", {"k": "prop", "expose": True, "g": fn("q", 2), "s": None, "d": None}]]}], "inst": []}
        type_first = not pr.ran(props, lambda o: sv._get_attribute(o, "p")) and not pr.ran(props, lambda o: sv._get_attribute(o, "q"))
        # F2c: do the property gates serve a property stored under a private name whose function is marked?
        hidden = {"classes": [{"expose": False, "members": [
            ["_h", {"k": "prop", "expose": False, "g": fn("hidden", 1, True), "s": fn("hidden_set", 2), "d": None}],
            ["__format__", {"k": "prop", "expose": True, "g": fn("other", 3), "s": fn("other", 4), "d": None}]]}], "inst": []}
        get_priv = not pr.ran(hidden, lambda o: sv._get_exposed_property_value(o, "_h")) \
            and not pr.ran(hidden, lambda o: sv._get_exposed_property_value(o, "__format__"))
        set_priv = not pr.ran(hidden, lambda o: sv._set_exposed_property_value(o, "_h", 0)) \
            and not pr.ran(hidden, lambda o: sv._set_exposed_property_value(o, "__format__", 0))
        table = [(code, pr.row(code)) for code in probe_codes()]
        # non-string names at the privacy gate: TypeError for every one of them (isinstance guard), or AttributeError from
        # `.startswith` for the hashable ones (int, None, float, tuple)?
        def priv_err(v):
            try:
                sv.is_private_attribute(v)
            except Exception as x:
                return type(x).__name__
            return "none"
        hashable_errs = {priv_err(v) for v in (7, None, 1.5, True, ("m",), frozenset(["m"]))}
        unhashable_errs = {priv_err(v) for v in (["m"], {"m": 1}, b"m")}
        if unhashable_errs != {"TypeError"} or hashable_errs not in ({"TypeError"}, {"AttributeError"}):
            raise RuntimeError("is_private_attribute on non-strings: %s / %s" % (sorted(hashable_errs), sorted(unhashable_errs)))
        nonstr_type = hashable_errs == {"TypeError"}
    finally:
        pr.close()
    gate_calls, gate_args, consts = _dispatch_facts(tree)

    def lean_names(names):
        return "[" + ",\n  ".join("[" + ", ".join(str(ord(c)) for c in n) + "]" for n in names) + "]"

    def lean_bool(b):
        return "true" if b else "false"

    rows = ",\n  ".join("(%s, %s)" % (json.dumps(c), json.dumps(o)) for c, o in table)
    return f"""-- GENERATED by harness/props/c02.py from {os.path.relpath(path, common.REPO)} — do not edit
namespace Pyro.Gen.C02
/-- sorted server._private_dunder_methods, as readable text -/
def reservedDundersText : List String := {json.dumps(reserved)}
/-- the same table as code-point lists (what the model computes with) -/
def reservedDunders : List (List Nat) := {lean_names(reserved)}
/-- PROBED: _get_attribute(obj, name) does not run the getter of a property (exposed or not) named by a method-call request -/
def callGateTypeFirst : Bool := {lean_bool(type_first)}
/-- PROBED: _get_exposed_property_value runs nothing for a marked property stored under a private / reserved name -/
def getGatePrivate : Bool := {lean_bool(get_priv)}
/-- PROBED: _set_exposed_property_value runs nothing for a marked property stored under a private / reserved name -/
def setGatePrivate : Bool := {lean_bool(set_priv)}
/-- PROBED: is_private_attribute raises TypeError for every non-string (else: AttributeError for int / None / float / tuple, TypeError for unhashables and bytes) -/
def privateGateNonStrTypeError : Bool := {lean_bool(nonstr_type)}
/-- gate functions called by Daemon.handleRequest, in source order (batch loop, attribute read, attribute write, normal call) -/
def dispatchGateCalls : List String := {json.dumps(gate_calls)}
/-- the argument lists of those calls; local names replaced by the role of the request field they hold -/
def dispatchGateArgs : List String := {json.dumps(gate_args)}
/-- string constants the request's method name is compared with in Daemon.handleRequest, in source order -/
def dispatchMethodConsts : List String := {json.dumps(consts)}
/-- PROBED decision table of the real gate functions and decorators: (row code, outcome).  Row code = [class exposed, key kind,
    inherited, member kind, 7 member parameters, 4 instance-attribute parameters]; the shape is materialised with type() and the real
    expose/oneway, then _get_attribute (+ calling what it returns), _get_exposed_property_value, _set_exposed_property_value and
    _get_exposed_members are called on it.  Outcome = [9, err] if a decorator refused, else
    <call> 100 <read> 100 <write> 100 in-methods in-oneway in-attrs, each <..> = 0|error code|8 (not callable) followed by the effect ids -/
def probeTable : List (List Nat × List Nat) := [
  {rows}]
end Pyro.Gen.C02
"""


# =========================================================================================
# the statement, restated in Python over the *shape description* (independent of /repo and of the Lean model)
# =========================================================================================
def spec_private(n):
    return n in SPEC_RESERVED or (n.startswith("_") and not (len(n) > 4 and n.startswith("__") and n.endswith("__")))


def resolve(shape, n):
    """what the name denotes on the type: (class index, member) of the first class in the MRO defining it"""
    for ci, c in enumerate(shape["classes"]):
        for key, m in c["members"]:
            if key == n:
                return ci, m
    return None


def member_fns(m):
    if m["k"] in ("func", "static", "clsm"):
        return [m["f"]]
    if m["k"] == "prop":
        return [f for f in (m["g"], m["s"], m["d"]) if f]
    return []


def spec_exposed(shape, ci, key, m):
    """explicitly exposed: itself, or by exposing the very class that defines it (lenient for properties: any of its functions)"""
    if m["k"] == "attr":
        return False
    if shape["classes"][ci]["expose"] and not spec_private(key) and not m.get("late"):
        return True       # (a member installed at run time was not there when expose(cls) ran)
    if m["k"] == "prop" and m["expose"]:
        return True
    return any(f["expose"] for f in member_fns(m))


def spec_allowed(shape, n):
    if not isinstance(n, str) or spec_private(n):
        return False
    r = resolve(shape, n)
    return bool(r) and spec_exposed(shape, r[0], n, r[1])


def helper_ids(shape):
    """effect ids of code reachable through plain attribute values -> is the value marked (helper class / function exposed)?"""
    ids = {}
    vals = [m["v"] for c in shape["classes"] for _, m in c["members"] if m["k"] == "attr"] + [v for _, v in shape["inst"]]
    for v in vals:
        if v["v"] in ("inst", "cls"):
            ids[v["callId"]] = v["expose"]
            ids[v["initId"]] = v["expose"]
        elif v["v"] == "fn":
            ids[v["f"]["fid"]] = v["f"]["expose"]
    return ids


def apply_step(shape, ev):
    """the shape description after a run-time change (members installed later carry "late": no class decorator ran on them)"""
    sh = copy.deepcopy(shape)

    def put(lst, k, v):
        for e in lst:
            if e[0] == k:
                e[1] = v
                return
        lst.append([k, v])
    t = ev["t"]
    if t == "is":
        put(sh["inst"], ev["k"], ev["v"])
    elif t == "id":
        sh["inst"] = [e for e in sh["inst"] if e[0] != ev["k"]]
    elif t == "ts":
        if ev["ci"] < len(sh["classes"]):
            put(sh["classes"][ev["ci"]]["members"], ev["k"], dict(ev["m"], late=True))
    elif t == "td":
        if ev["ci"] < len(sh["classes"]):
            c = sh["classes"][ev["ci"]]
            c["members"] = [e for e in c["members"] if e[0] != ev["k"]]
    return sh


def req_kind(req):
    if req["batch"]:
        return "batch"
    if req["method"] == "__getattr__":
        return "getattr"
    if req["method"] == "__setattr__":
        return "setattr"
    return "call"


def req_names(req):
    k = req_kind(req)
    if k == "batch":
        return list(req["args"])
    if k in ("getattr", "setattr"):
        return req["args"][:1]
    return [req["method"]]


def holds_helper(shape, n):
    """the name denotes a plain attribute whose value is an instance / the class of an EXPOSED helper class (finding F2b)"""
    inst = dict((k, v) for k, v in shape["inst"])
    if isinstance(n, str) and n in inst:
        return inst[n]["v"] in ("inst", "cls") and inst[n]["expose"]
    r = resolve(shape, n) if isinstance(n, str) else None
    return bool(r) and r[1]["k"] == "attr" and r[1]["v"]["v"] in ("inst", "cls") and r[1]["v"]["expose"]


def judge(shape, req, reply, eff):
    """property oracle for one request on the real code: list of (signature, description)"""
    out = []
    kind = req_kind(req)
    names = req_names(req)
    hids = helper_ids(shape)
    justified = set()
    for n in names:
        if spec_allowed(shape, n):
            ci, m = resolve(shape, n)
            justified.update(f["fid"] for f in member_fns(m))
    for fid in eff:
        if fid in justified:
            continue
        if hids.get(fid):
            out.append(("exposed-helper-attribute-invoked",
                        "%s request %r invoked a plain attribute holding an instance / the class of an @expose'd helper class (effect %d)"
                        % (kind, names, fid)))
        elif kind in ("call", "batch") and any(isinstance(n, str) and (resolve(shape, n) or (0, {"k": ""}))[1]["k"] == "prop" for n in names):
            out.append(("call-evaluates-unexposed-property",
                        "%s request %r ran the getter of an unexposed property (effect %d) before being refused" % (kind, names, fid)))
        elif kind in ("getattr", "setattr") and any(isinstance(n, str) and spec_private(n) for n in names):
            out.append(("attribute-request-private-name",
                        "%s request served the private name %r (effect %d)" % (kind, names, fid)))
        elif any(isinstance(n, str) and spec_private(n) and resolve(shape, n) for n in names):
            out.append(("private-name-served:" + kind, "%s request %r ran code stored under a private name (effect %d)" % (kind, names, fid)))
        elif fid in hids:
            out.append(("unexposed-value-invoked:" + kind,
                        "%s request %r invoked an unexposed callable stored in a plain attribute (effect %d)" % (kind, names, fid)))
        else:
            out.append(("unexposed-code-ran:" + kind, "%s request %r ran code that is not exposed (effect %d)" % (kind, names, fid)))
        break
    refusal = (reply == "none") if req["oneway"] else reply.startswith("error:")
    if kind != "batch":
        target_ok = len(names) == 1 and spec_allowed(shape, names[0])
        if not target_ok and not refusal and not out:
            if len(names) == 1 and holds_helper(shape, names[0]):
                out.append(("exposed-helper-attribute-invoked", "%s request %r was served (reply %s)" % (kind, names, reply)))
            else:
                out.append(("not-refused:" + kind, "%s request %r is not for an exposed public member but the reply was %s" % (kind, names, reply)))
    else:
        if any(not spec_allowed(shape, n) for n in names) and not refusal and not out:
            out.append(("not-refused:batch", "batch %r contains a name that is not an exposed public member but the reply was %s" % (names, reply)))
    if req["oneway"] and reply != "none":
        out.append(("oneway-got-reply", "a oneway request was answered with %s" % reply))
    return out


def judge_metadata(shape, md, served):
    """advertised == served, for names whose meaning on the instance is that on the type (no shadowing instance attribute)"""
    out = []
    inst_keys = {k for k, _ in shape["inst"]}
    for n in sorted(served):
        s = served[n]
        if n in inst_keys and resolve(shape, n):
            continue          # an instance attribute shadows a class member: the object changed its own meaning of the name
        r = resolve(shape, n)
        if r and r[1]["k"] == "prop" and not (r[1]["g"] or r[1]["s"]):
            continue          # deleter-only property: outside the quantifier (getter and/or setter)
        adv_m, adv_a = n in md["methods"], n in md["attrs"]
        if s["call"] and not adv_m:
            sig = "exposed-helper-attribute-invoked" if holds_helper(shape, n) else "served-not-advertised:methods"
            out.append((sig, "name %r is served as a method but not in the advertised methods %r" % (n, md["methods"])))
        if adv_m and not s["call"]:
            out.append(("advertised-not-served:methods", "name %r is advertised as a method but a call is refused" % n))
        if (s["getattr"] or s["setattr"]) and not adv_a:
            out.append(("attribute-request-private-name" if spec_private(n) else "served-not-advertised:attrs", "name %r is served as an attribute but not in the advertised attrs %r" % (n, md["attrs"])))
        if adv_a and not (s["getattr"] or s["setattr"]):
            out.append(("advertised-not-served:attrs", "name %r is advertised as an attribute but neither read nor write is served" % n))
    for n in md["methods"] + md["attrs"]:
        if spec_private(n):
            out.append(("private-name-advertised", "private name %r is advertised" % n))
        elif not spec_allowed(shape, n):
            out.append(("unexposed-name-advertised", "name %r is advertised but was never exposed" % n))
    if not set(md["oneway"]) <= set(md["methods"]):
        out.append(("oneway-not-method", "oneway %r not within methods %r" % (md["oneway"], md["methods"])))
    return out


# =========================================================================================
# generator
# =========================================================================================
PUBLIC_KEYS = ["m", "n", "go", "val", "x", "item", "ｍ", "м", "naïve", "m2", "\U0001d426"]
PRIVATE_KEYS = ["_m", "__m", "_x", "_", "__", "___", "_m_", "__m_", "____"]
DUNDER_KEYS = ["__m__", "__dunder__", "__x__", "__len__", "__iter__", "__len__"]
SAFE_RESERVED_KEYS = ["__call__", "__copy__", "__deepcopy__", "__enter__", "__exit__", "__cmp__", "__coerce__", "__nonzero__",
                      "__hasattr__", "__getinitargs__", "__format__", "__sizeof__"]
ODD_KEYS = ["a.b", "m.n", "m ", "M"]
LAZY_KEYS = ["a", "h", "lazy", "mm", "res", "w0", "__lazy__", "Z"]     # sort before / between / after the usual member names in dir()
AMBIENT = ["__dict__", "__doc__", "__module__", "__weakref__", "__class__", "__init__", "__getattribute__", "__getattr__",
           "__setattr__", "__delattr__", "__new__", "__del__", "__reduce__", "__reduce_ex__", "__getstate__", "__dir__",
           "__subclasshook__", "__init_subclass__", "__eq__", "__hash__", "__repr__", "__str__",
           "mro", "__subclasses__", "__or__", "__annotations__", "__name__", "__qualname__", "__slots__", "__func__", "__self__",
           "__wrapped__", "__mro__", "__bases__", "__globals__", "__code__", "__builtins__",
           "_pyroExposed", "_pyroOneway", "_pyroId", "_pyroDaemon", "_pyroInstancing", "fget", "fset", ""]
HOMOGLYPH = {"m": "м", "a": "а", "o": "о", "e": "е", "x": "х", "n": "ո", "i": "і", "v": "ν",
             "g": "ɡ", "l": "ⅼ", "t": "ｔ"}
ALT_SERIALIZERS = ["marshal", "json", "msgpack"]
BYTES_SERIALIZERS = ["marshal", "msgpack"]
NONSTR_TAGS = ["int", "none", "float", "bool", "tuple", "set", "list", "dict", "bytes", "false", "zero"]


def _key(rng):
    r = rng.random()
    if r < 0.62:
        return rng.choice(PUBLIC_KEYS[:6]) if rng.random() < 0.8 else rng.choice(PUBLIC_KEYS)
    if r < 0.78:
        return rng.choice(PRIVATE_KEYS[:3]) if rng.random() < 0.7 else rng.choice(PRIVATE_KEYS)
    if r < 0.87:
        return rng.choice(DUNDER_KEYS)
    if r < 0.95:
        return rng.choice(SAFE_RESERVED_KEYS)
    return rng.choice(ODD_KEYS)


class _Gen:
    def __init__(self, rng):
        self.rng = rng
        self.fid = 0

    def next_id(self):
        self.fid += 1
        return self.fid

    def fn(self, key, p_expose):
        rng = self.rng
        name = key
        r = rng.random()
        if r < 0.08:
            name = rng.choice(["hidden", "other", "m"])
        elif r < 0.12:
            name = rng.choice(["_p", "__call__", "__q"])
        expose = rng.random() < p_expose
        if expose and spec_private(name) and rng.random() < 0.8:
            expose = False          # keep decorator refusals (build errors) rare
        return {"name": name, "fid": self.next_id(), "expose": expose, "oneway": rng.random() < 0.2}

    def val(self, allow_fn=False):
        rng = self.rng
        r = rng.random()
        if allow_fn and r < 0.25:
            # a plain function stored in the instance dict; never exposed (whether an exposed one "is a method" is not the statement's business)
            return {"v": "fn", "f": {"name": rng.choice(["plain", "m", "_p"]), "fid": self.next_id(), "expose": False, "oneway": rng.random() < 0.2}}
        if r < 0.35:
            return {"v": "data"}
        return {"v": "inst" if r < 0.8 else "cls", "expose": rng.random() < 0.5, "call": rng.random() < 0.6,
                "callId": self.next_id(), "initId": self.next_id()}

    def member(self, key):
        rng = self.rng
        r = rng.random()
        if r < 0.34:
            return {"k": "func", "f": self.fn(key, 0.45)}
        if r < 0.44:
            return {"k": "static", "f": self.fn(key, 0.45)}
        if r < 0.54:
            return {"k": "clsm", "f": self.fn(key, 0.45)}
        if r < 0.82:
            g = self.fn(key, 0.3) if rng.random() < 0.8 else None
            s = self.fn(key, 0.3) if rng.random() < 0.5 else None
            d = self.fn(key, 0.3) if rng.random() < 0.15 else None
            if not g and not s and rng.random() < 0.9:
                g = self.fn(key, 0.3)
            ex = rng.random() < 0.35
            prim = g or s or d
            if ex and (prim is None or spec_private(prim["name"])) and rng.random() < 0.8:
                ex = False
            return {"k": "prop", "expose": ex, "g": g, "s": s, "d": d}
        return {"k": "attr", "v": self.val()}

    def shape(self):
        rng = self.rng
        self.fid = 0
        classes = []
        for ci in range(rng.choice([1, 1, 2, 2, 3])):
            keys = []
            for _ in range(rng.choice([0, 1, 2, 3, 4, 5, 6])):
                k = _key(rng)
                if k not in keys:
                    keys.append(k)
            if ci > 0 and classes[0]["members"] and rng.random() < 0.35:
                k = rng.choice(classes[0]["members"])[0]      # a base class member that the registered class overrides
                if k not in keys:
                    keys.append(k)
            members = [[k, self.member(k)] for k in keys]
            if rng.random() < 0.2:
                # container-like / truth-testable objects: __len__ or __bool__ as a plain method (code of the object that no request names)
                k = rng.choice(["__len__", "__bool__"])
                if k not in keys:
                    members.append([k, {"k": "func", "f": {"name": k, "fid": self.next_id(), "expose": k == "__len__" and rng.random() < 0.3,
                                                            "oneway": False}}])
                    if rng.random() < 0.4:
                        members[-1][1]["f"]["falsy"] = True      # the object is falsy: __len__ -> 0 / __bool__ -> False (empty container, idle job)
            classes.append({"expose": rng.random() < 0.35, "members": members})
        if rng.random() < 0.3:
            # a plain class attribute that is resolved lazily (non-data descriptor): the first computation(s) of the member list are
            # interrupted part-way by an exception, or a second connection asks for the list while the first computation is still
            # running.  For everything else it is a data attribute (the model sees "attr data").
            used = {k for c in classes for k, _ in c["members"]}
            free = [k for k in LAZY_KEYS if k not in used]
            if free:
                lazy = {"mode": rng.choice(["raise", "raise", "conc"]), "n": rng.choice([1, 1, 2]),
                        "exc": rng.choice(["RuntimeError", "AttributeError", "KeyError", "OSError"])}
                rng.choice(classes)["members"].append([rng.choice(free), {"k": "attr", "v": {"v": "data", "lazy": lazy}}])
        inst = []
        type_keys = [k for c in classes for k, _ in c["members"]]
        for _ in range(rng.choice([0, 0, 1, 2, 3])):
            k = rng.choice(type_keys) if type_keys and rng.random() < 0.3 else rng.choice(["iv", "helper", "d", "_iv", "m", "val"])
            if k not in [x for x, _ in inst]:
                inst.append([k, self.val(allow_fn=True)])
        return {"classes": classes, "inst": inst}

    def prior(self, shape):
        """another object whose classes will get the SAME module and qualified names as those of `shape` (class factory, reused
        type() name, re-executed class statement) but different exposure; registered and asked for its metadata first"""
        rng = self.rng
        if rng.random() < 0.6:
            p = copy.deepcopy(shape)
            for c in p["classes"]:
                c["expose"] = rng.random() < 0.5
                for _, m in c["members"]:
                    for f in member_fns(m):
                        f["expose"] = rng.random() < 0.5 and not spec_private(f["name"])
                    if m["k"] == "prop":
                        prim = m["g"] or m["s"] or m["d"]
                        m["expose"] = rng.random() < 0.4 and prim is not None and not spec_private(prim["name"])
        else:
            fid = self.fid
            p = self.shape()
            self.fid = fid
        return {"shape": p, "keep": rng.random() < 0.5}

    def history(self, shape, names):
        """run-time changes after the metadata was fetched (the member cache is filled and never reset), each followed by
        requests for the changed name in every kind; aimed at names that are served at that moment"""
        rng = self.rng
        cur = shape
        evs = []

        def q(method, args=(), batch=False, oneway=False):
            evs.append({"t": "q", "req": {"batch": batch, "oneway": oneway, "method": method, "args": list(args)}})
        for _ in range(rng.choice([0, 1, 2, 3, 3, 4])):
            tkeys = [k for c in cur["classes"] for k, _ in c["members"]]
            ikeys = [k for k, _ in cur["inst"]]
            served = [k for k in tkeys if spec_allowed(cur, k)]
            if served and rng.random() < 0.65:
                k = rng.choice(served)
            else:
                k = rng.choice(tkeys + ikeys + ["m", "val", "zz", "_x"])
            r = resolve(cur, k)
            ci = r[0] if r and rng.random() < 0.7 else rng.randrange(max(1, len(cur["classes"])))
            x = rng.random()
            if x < 0.3:
                ev = {"t": "is", "k": k, "v": self.val(allow_fn=True)}
            elif x < 0.4:
                ev = {"t": "id", "k": rng.choice(ikeys) if ikeys and rng.random() < 0.7 else k}
            elif x < 0.75:
                ev = {"t": "ts", "ci": ci, "k": k, "m": self.member(k)}
            else:
                ev = {"t": "td", "ci": ci, "k": k}
            evs.append(ev)
            cur = apply_step(cur, ev)
            others = rng.sample(names, min(2, len(names))) if names else []
            for n in [ev["k"]] + others:
                q(n)
                q(n, oneway=True)
                q("__getattr__", [n])
                q("__setattr__", [n, "v"])
                q("<batch>", [n], batch=True)
                if served:
                    q("<batch>", [rng.choice(served), n, rng.choice(served)], batch=True, oneway=rng.random() < 0.2)
            if rng.random() < 0.5:
                # re-advertise: without a reset the cached list is repeated; after resetMetadataCache it must be exact again
                if rng.random() < 0.75:
                    evs.append({"t": "rm"})
                evs.append({"t": "gm"})
        if evs and rng.random() < 0.5:
            evs += [{"t": "rm"}, {"t": "gm"}]
        return evs


def _variants(rng, k):
    out = ["_" + k, "__" + k, "__" + k + "__", k + "_", k + ".x", k + ".__call__", k + ".fget", "x." + k, k.upper(), k + " ", " " + k, k + "\x00"]
    if k.lstrip("_") != k:
        out.append(k.lstrip("_"))
        out.append(k.strip("_"))
    h = "".join(HOMOGLYPH.get(c, c) for c in k)
    if h != k:
        out.append(h)
    return out


def gen_requests(rng, shape, reserved, thorough=False):
    keys = []
    for c in shape["classes"]:
        for k, m in c["members"]:
            if k not in keys:
                keys.append(k)
            for f in member_fns(m):
                if f["name"] not in keys:
                    keys.append(f["name"])
    for k, _ in shape["inst"]:
        if k not in keys:
            keys.append(k)
    names = list(keys)
    for k in keys:
        vs = _variants(rng, k)
        names += vs if thorough else rng.sample(vs, 3)
    names += reserved if thorough else rng.sample(reserved, 6)
    names += AMBIENT if thorough else rng.sample(AMBIENT, 8)
    names += ["__call__", "__init__", "__class__", "__dict__"]
    seen, uniq = set(), []
    for n in names:
        if n not in seen:
            seen.add(n)
            uniq.append(n)
    names = uniq + [{"ns": t} for t in (NONSTR_TAGS if thorough else rng.sample(NONSTR_TAGS, 3))]
    reqs = []

    def q(method, args=(), batch=False, oneway=False):
        reqs.append({"batch": batch, "oneway": oneway, "method": method, "args": list(args)})
    for n in names:
        is_key = isinstance(n, str) and n in keys
        q(n)
        q("__getattr__", [n])
        q("__setattr__", [n, "v"])
        if is_key or rng.random() < 0.3:
            q(n, oneway=True)
        if is_key or rng.random() < 0.1:
            q("__getattr__", [n], oneway=True)
            q("__setattr__", [n, "v"], oneway=True)
        if rng.random() < 0.15:
            q(n, ["arg", n])                       # a normal call with arguments that look like names
        if is_key or rng.random() < 0.15:          # attribute requests with EXTRA positional arguments (falsy: would switch a flag off)
            falsy = rng.choice([{"ns": "false"}, {"ns": "zero"}, {"ns": "none"}, ""])
            q("__getattr__", [n, falsy], oneway=rng.random() < 0.15)
            q("__setattr__", [n, "v", falsy], oneway=rng.random() < 0.15)
            if rng.random() < 0.2:
                q("__getattr__", [n, rng.choice(["x", {"ns": "int"}]), falsy])
    # the same names through the other wire formats, and as BYTES objects (marshal and msgpack transport bytes unchanged):
    # a non-string name is refused whatever the serializer
    for n in keys:
        if rng.random() < 0.5:
            ser = rng.choice(ALT_SERIALIZERS)
            reqs.append({"batch": False, "oneway": rng.random() < 0.2, "method": n, "args": [], "ser": ser})
        if rng.random() < 0.6:
            ser = rng.choice(BYTES_SERIALIZERS)
            bn = {"b": n}
            reqs.append({"batch": False, "oneway": rng.random() < 0.2, "method": bn, "args": [], "ser": ser})
            reqs.append({"batch": False, "oneway": False, "method": "__getattr__", "args": [bn], "ser": ser})
            reqs.append({"batch": False, "oneway": False, "method": "__setattr__", "args": [bn, "v"], "ser": ser})
            if rng.random() < 0.4:
                reqs.append({"batch": False, "oneway": False, "method": {"b": "__getattr__"}, "args": [n], "ser": ser})
                reqs.append({"batch": True, "oneway": False, "method": "<batch>", "args": [bn], "ser": ser})
    served_keys = [k for k in keys if spec_allowed(shape, k)]
    for _ in range(10 if not thorough else 25):
        ln = rng.choice([0, 1, 1, 2, 3, 4])
        items = []
        for _ in range(ln):
            r = rng.random()
            if served_keys and r < 0.55:
                items.append(rng.choice(served_keys))
            elif r < 0.9:
                items.append(rng.choice(names))
            else:
                items.append(rng.choice(["__getattr__", "__setattr__"]))
        q("<batch>" if rng.random() < 0.7 else rng.choice(["__getattr__", "m"]), items, batch=True, oneway=rng.random() < 0.25)
    q("__getattr__", [])
    q("__setattr__", [])
    q("__setattr__", [rng.choice(keys) if keys else "m"])
    q("__getattr__", [rng.choice(keys) if keys else "m", "extra"])
    return keys, reqs


# =========================================================================================
# canonical lines for the Lean driver
# =========================================================================================
def _b(x):
    return "1" if x else "0"


def _fn_tok(f):
    if f is None:
        return ["x"]
    return ["f", cps(f["name"]), str(f["fid"]), _b(f["expose"]), _b(f["oneway"])]


def _val_tok(v):
    if v["v"] == "data":
        return ["vd"]
    if v["v"] == "fn":
        return ["vf"] + _fn_tok(v["f"])
    return ["vi" if v["v"] == "inst" else "vc", _b(v["expose"]), _b(v["call"]), str(v["callId"]), str(v["initId"])]


def _member_tok(m):
    k = m["k"]
    if k in ("func", "static", "clsm"):
        return [{"func": "mf", "static": "ms", "clsm": "mc"}[k]] + _fn_tok(m["f"])
    if k == "prop":
        return ["mp", _b(m["expose"])] + _fn_tok(m["g"]) + _fn_tok(m["s"]) + _fn_tok(m["d"])
    return ["ma"] + _val_tok(m["v"])


class NameCodec:
    """how a request name reaches the gate after (de)serialisation: s<code points> | h | u"""

    def __init__(self, real):
        from props import c02_real
        self.tags = {}
        import serpent
        for tag, v in c02_real.NONSTR.items():
            method = serpent.loads(serpent.dumps(v))      # what the wire format itself delivers (not Pyro's loadsCall)
            if isinstance(method, str):
                raise RuntimeError("non-string %s arrives as str" % tag)
            self.tags[tag] = "u" if isinstance(method, (list, dict, bytearray)) else "h"

    def tok(self, n):
        if isinstance(n, str):
            return "s" + cps(n)
        if "b" in n:
            # a bytes object (marshal / msgpack transport it unchanged): hashable, but startswith('_') and getattr(cls, b'..')
            # raise TypeError — the same answers as an unhashable value
            return "u"
        return self.tags[n["ns"]]


def _req_tok(codec, r):
    return ["q", _b(r["batch"]), _b(r["oneway"]), codec.tok(r["method"]), str(len(r["args"]))] + [codec.tok(a) for a in r["args"]]


def _event_tok(codec, ev):
    t = ev["t"]
    if t == "q":
        return _req_tok(codec, ev["req"])
    if t == "is":
        return ["is", cps(ev["k"])] + _val_tok(ev["v"])
    if t == "id":
        return ["id", cps(ev["k"])]
    if t == "ts":
        return ["ts", str(ev["ci"]), cps(ev["k"])] + _member_tok(ev["m"])
    if t == "td":
        return ["td", str(ev["ci"]), cps(ev["k"])]
    if t in ("rm", "gm"):
        return [t]
    raise ValueError(t)


def shape_line(codec, shape, reqs, events=()):
    t = ["S", str(len(shape["classes"]))]
    for c in shape["classes"]:
        t += ["C", _b(c["expose"]), str(len(c["members"]))]
        for k, m in c["members"]:
            t += [cps(k)] + _member_tok(m)
    t += ["I", str(len(shape["inst"]))]
    for k, v in shape["inst"]:
        t += [cps(k)] + _val_tok(v)
    t += ["R", str(len(reqs))]
    for r in reqs:
        t += _req_tok(codec, r)
    if events:
        t += ["E", str(len(events))]
        for ev in events:
            t += _event_tok(codec, ev)
    return " ".join(t)


def _names_tok(names):
    return ";".join(cps(n) for n in names) if names else "-"


def real_line(build_err, md, results):
    if build_err:
        return "builderr:" + build_err
    parts = ["ok M %s O %s A %s" % (_names_tok(md["methods"]), _names_tok(md["oneway"]), _names_tok(md["attrs"]))]
    for res in results:
        if isinstance(res, str):
            parts.append(res)                 # a step of the history: "step" / "steperr:.."
        else:
            reply, eff = res
            parts.append("%s %s" % (reply, ",".join(map(str, eff)) if eff else "-"))
    return " | ".join(parts)


def _sort_model_line(line):
    """the model lists names in MRO order; sets are compared sorted (by the strings they denote)"""
    if not line.startswith("ok M "):
        return line
    head, sep, rest = line.partition(" | ")
    toks = head.split(" ")

    def srt(tok):
        if tok == "-":
            return tok
        names = ["".join(chr(int(c)) for c in n.split(",")) for n in tok.split(";")]
        return _names_tok(sorted(names))
    toks[2], toks[4], toks[6] = srt(toks[2]), srt(toks[4]), srt(toks[6])
    parts = []
    for part in (rest.split(" | ") if rest else []):
        if part.startswith("M "):          # a later advertisement in the history
            t = part.split(" ")
            t[1], t[3], t[5] = srt(t[1]), srt(t[3]), srt(t[5])
            part = " ".join(t)
        parts.append(part)
    return " ".join(toks) + sep + " | ".join(parts)


_ambient_cache = {}


def ambient(n):
    """a name that every Python object / class has (so the error *kind* of a refusal is Python's business, not the gate's)"""
    if n not in _ambient_cache:
        E = type("Empty", (), {})
        try:
            _ambient_cache[n] = hasattr(E(), n) or hasattr(E, n)
        except Exception:
            _ambient_cache[n] = True
    return _ambient_cache[n]


def coarse(shape_keys, req):
    return any(isinstance(n, str) and n not in shape_keys and (ambient(n) or n.startswith("_pyro")) for n in req_names(req))


def _coarsen(tok):
    if tok.startswith("step"):
        return tok
    reply, _, eff = tok.partition(" ")
    if reply.startswith("error:"):
        reply = "error:*"
    return reply + " " + eff


# =========================================================================================
# steps C + D
# =========================================================================================
def _load_corpus():
    cases = []
    if os.path.isdir(CORPUS):
        for f in sorted(os.listdir(CORPUS)):
            if f.endswith(".json"):
                c = json.load(open(os.path.join(CORPUS, f)))
                c["corpus"] = f
                cases.append(c)
    return cases


def _probe_served(real, names):
    """which of the names are served right now, per request kind (plain non-oneway requests)"""
    served = {}
    for n in sorted(names):
        s = {}
        for kind, (method, args) in {"call": (n, []), "getattr": ("__getattr__", [n]), "setattr": ("__setattr__", [n, "v"])}.items():
            reply, eff = real.request({"batch": False, "oneway": False, "method": method, "args": args})
            s[kind] = reply == "result"
        served[n] = s
    return served


def _md_part(tok):
    """'M {json}' from the real side -> canonical 'M names O names A names'"""
    md = json.loads(tok[2:])
    return "M %s O %s A %s" % (_names_tok(md["methods"]), _names_tok(md["oneway"]), _names_tok(md["attrs"])), md


def run_case(real, codec, shape, reqs, prior=None, reg="strong"):
    """real code: (prior object,) build, metadata, every request -> (build_err, md, [(reply, eff)])"""
    from props import c02_real
    err = real.build(shape, prior, reg)
    if err:
        return err, None, []
    try:
        md = real.first_metadata()
    except c02_real.MetadataFailed as x:
        return "nometadata", str(x), []
    results = [real.request(r) for r in reqs]
    return None, md, results


def _shape_keys(shape):
    return {k for c in shape["classes"] for k, _ in c["members"]} | {k for k, _ in shape["inst"]}


def _check_case(ctx, real, codec, shape, reqs, keys, tag, events=(), prior=None, reg="strong"):
    """run one shape (and its history) on the real code, apply the property oracle (step D); returns the canonical real line"""
    build_err, md, results = run_case(real, codec, shape, reqs, prior, reg)
    ctx.count("build:" + (build_err or "ok"))
    ctx.count("registered:" + reg)
    if build_err == "nometadata":
        case = {"shape": shape, "req": None}
        if prior:
            case["prior"] = prior
        if reg != "strong":
            case["reg"] = reg
        ctx.fail("metadata-request-failed", "the daemon does not advertise a member list for a registered object: %s [%s]" % (md, tag), case)
        return "nometadata", []
    if prior:
        ctx.count("prior-same-named-class:%s" % real.prior_state)

    def with_prior(case):
        if prior:
            case["prior"] = prior
        if reg != "strong":
            case["reg"] = reg
        return case
    if build_err:
        return real_line(build_err, None, []), []
    skeys = _shape_keys(shape)
    shape_id = json.dumps(shape, sort_keys=True)
    served = {}
    flags = []
    to_shrink, later = [], []
    if not hasattr(ctx, "c02_seen"):
        ctx.c02_seen = set()

    def judged(cur, steps, r, reply, eff, stage):
        ctx.evaluations += 1
        kind = req_kind(r)
        ctx.count("%s%s%s:%s" % (stage, kind, "/oneway" if r["oneway"] else "", reply))
        if r.get("ser"):
            ctx.count("via-%s%s:%s" % (r["ser"], "/bytes-name" if any(isinstance(n, dict) and "b" in n for n in req_names(r)) else "",
                                       reply.split(":")[0]))
        if eff or reply not in ("error:priv",):
            ctx.nontriv(shape_id + json.dumps([steps, r], sort_keys=True))
        if eff and len(ctx.samples) < 4 and len(shape_id) < 900 and (stage or len(ctx.samples) < 2):
            ctx.sample({"shape": shape, "steps": steps, "request": r, "reply": reply, "effects": eff})
        for sig, desc in judge(cur, r, reply, eff):
            if steps:
                desc += " after %d run-time change(s) of the object" % len(steps)
            if sig in ctx.c02_seen:
                later.append((sig, desc + " [%s]" % tag, with_prior({"shape": shape, "steps": list(steps), "req": r})))
            else:
                ctx.c02_seen.add(sig)
                to_shrink.append((sig, desc, list(steps), r))

    for r, (reply, eff) in zip(reqs, results):
        judged(shape, [], r, reply, eff, "")
        kind = req_kind(r)
        flags.append(coarse(skeys, r))
        if not r["batch"] and not r["oneway"] and len(req_names(r)) == 1 and isinstance(req_names(r)[0], str) \
                and (kind == "call" and not r["args"] or kind == "getattr" and len(r["args"]) == 1 or kind == "setattr" and len(r["args"]) == 2):
            served.setdefault(req_names(r)[0], {"call": False, "getattr": False, "setattr": False})[kind] |= (reply == "result")
    full = {n: s for n, s in served.items() if n in keys or n in md["methods"] or n in md["attrs"]}
    for n in md["methods"] + md["attrs"]:
        if n not in served:
            full[n] = None
    missing = [n for n, s in full.items() if s is None]
    for n in missing:      # advertised names the request list did not cover: ask now
        s = {}
        for kind, (method, args) in {"call": (n, []), "getattr": ("__getattr__", [n]), "setattr": ("__setattr__", [n, "v"])}.items():
            reply, eff = real.request({"batch": False, "oneway": False, "method": method, "args": args})
            s[kind] = reply == "result"
        full[n] = s
    lazy_note = ""
    if real.lazies:
        ctx.count("first-member-list:%s" % ("second request while the first computation is parked" if real.first_other is not None
                                            else "%d computation(s) failed part-way" % real.first_failed))
        ctx.nontriv(shape_id + "/first-member-list")
        lazy_note = " (a class attribute is resolved lazily: %s)" % (
            "this list was told to a second connection while the first computation was still running" if real.first_other is not None
            else "%d earlier get_metadata request(s) failed part-way, this is the first list told" % real.first_failed)
    for sig, desc in judge_metadata(shape, md, full):
        if prior:
            desc += " (an object of a different class with the same module and qualified name was registered and asked for its metadata before)"
        later.append((sig, desc + lazy_note + " [%s]" % tag, with_prior({"shape": shape, "req": None})))
    if real.first_other is not None and real.first_other != md:
        other = real.first_other
        full2 = dict(full)
        for n, sv in _probe_served(real, [n for n in other["methods"] + other["attrs"] if n not in full2]).items():
            full2[n] = sv
        for sig, desc in judge_metadata(shape, other, full2):
            later.append((sig, desc + " (the list told to the first connection, whose computation was parked while a second connection asked) [%s]" % tag,
                          with_prior({"shape": shape, "req": None})))
    # ---- the history: run-time changes (metadata cache filled above, never reset), each request judged against the state of its moment
    cur, steps = shape, []
    results = list(results)
    fresh = False                # True between a resetMetadataCache and the next advertisement
    for ev in events:
        if ev["t"] in ("rm", "gm"):
            out = real.step(ev)
            steps = steps + [ev]
            flags.append(False)
            ctx.count("step:%s" % ev["t"])
            if ev["t"] == "rm":
                results.append(out)
                fresh = True
                continue
            if out.startswith("Mfailed"):
                results.append("Mfailed")
                later.append(("metadata-request-failed", "the daemon does not advertise a member list for a registered object: %s [%s]" % (out, tag),
                              with_prior({"shape": shape, "steps": list(steps[:-1]), "req": None})))
                fresh = False
                continue
            part, md2 = _md_part(out)
            results.append(part)
            if fresh:
                # advertised right after a reset: must again be exactly what is served in the object's present state
                now = _probe_served(real, {k for c in cur["classes"] for k, _ in c["members"]} | set(md2["methods"]) | set(md2["attrs"]))
                for sig, desc in judge_metadata(cur, md2, now):
                    later.append((sig, desc + " (advertised after %d run-time change(s) and resetMetadataCache) [%s]" % (
                        len([e for e in steps if e["t"] not in ("rm", "gm")]), tag),
                        with_prior({"shape": shape, "steps": list(steps[:-1]), "req": None})))
            fresh = False
            continue
        if ev["t"] == "q":
            reply, eff = real.request(ev["req"])
            results.append((reply, eff))
            flags.append(coarse(_shape_keys(cur) | skeys, ev["req"]))
            judged(cur, steps, ev["req"], reply, eff, "hist:")
        else:
            out = real.step(ev)
            ctx.count("step:%s:%s" % (ev["t"], out))
            results.append(out)
            flags.append(False)
            if out == "step":
                cur = apply_step(cur, ev)
                steps = steps + [ev]
    line = real_line(None, md, results)
    for sig, desc, st, r in to_shrink:      # first failure of each class in a run: minimise shape and history (re-running the real code)
        small, st2 = _shrink(real, shape, st, r, sig, prior, reg)
        case = with_prior({"shape": small, "req": r})
        if st2:
            case["steps"] = st2
        ctx.fail(sig, desc + " [%s, minimised]" % tag, case)
    for sig, desc, case in later:
        ctx.fail(sig, desc, case)
    return line, flags


def _replay_case(real, shape, steps, req, prior=None, reg="strong"):
    """(prior object,) build, fetch the metadata (fills the member cache), apply the steps, send the request; -> (state description, reply, effects) or None"""
    if real.build(shape, prior, reg):
        return None
    try:
        real.first_metadata()
    except Exception:
        return None
    cur = shape
    for ev in steps:
        if real.step(ev) == "step":
            cur = apply_step(cur, ev)
    reply, eff = real.request(req)
    return cur, reply, eff


def _shrink(real, shape, steps, req, sig, prior=None, reg="strong"):
    """greedy removal of steps / members / instance attributes / empty classes while the real code still fails the same way"""
    def fails(sh, st):
        out = _replay_case(real, sh, st, req, prior, reg)
        return bool(out) and any(s == sig for s, _ in judge(out[0], req, out[1], out[2]))
    cur, cst = copy.deepcopy(shape), list(steps)
    if not fails(cur, cst):
        return shape, steps
    progress = True
    while progress:
        progress = False
        cands = [("s", i, 0) for i in range(len(cst))]
        for ci, c in enumerate(cur["classes"]):
            for mi in range(len(c["members"])):
                cands.append(("m", ci, mi))
            if not c["members"] and len(cur["classes"]) > 1 and not any(e.get("ci", -1) >= ci for e in cst):
                cands.append(("c", ci, 0))
            if c["expose"]:
                cands.append(("e", ci, 0))
        for ii in range(len(cur["inst"])):
            cands.append(("i", ii, 0))
        for kind, a, b in cands:
            cand, cand_st = copy.deepcopy(cur), list(cst)
            if kind == "s":
                del cand_st[a]
            elif kind == "m":
                del cand["classes"][a]["members"][b]
            elif kind == "c":
                del cand["classes"][a]
            elif kind == "e":
                cand["classes"][a]["expose"] = False
            else:
                del cand["inst"][a]
            if fails(cand, cand_st):
                cur, cst, progress = cand, cand_st, True
                break
    return cur, cst


def _apply_coarse(line, flags):
    if not line.startswith("ok M "):
        return line
    parts = line.split(" | ")
    for i, fl in enumerate(flags):
        if fl:
            parts[i + 1] = _coarsen(parts[i + 1])
    return " | ".join(parts)


def _search_variants(shape, names=()):
    """search mode: shapes on which model and code disagreed, with exposure turned up (every class exposed; every
    function with a public __name__ exposed) so that a gate that lets too much through shows it on the real code"""
    a = copy.deepcopy(shape)
    for c in a["classes"]:
        c["expose"] = True
    b = copy.deepcopy(a)
    for c in b["classes"]:
        for _, m in c["members"]:
            for f in member_fns(m):
                if not spec_private(f["name"]):
                    f["expose"] = True
    c = copy.deepcopy(shape)
    for cl in c["classes"]:
        cl["expose"] = False
        for _, m in cl["members"]:
            for f in member_fns(m):
                f["expose"] = False
            if m["k"] == "prop":
                m["expose"] = False
    out = [a, b, c]
    # the names model and code disagreed about, stored as exposed members (function with a public __name__, property)
    extra = [n for n in names if isinstance(n, str) and n and n not in _shape_keys(shape)]
    if extra:
        d = copy.deepcopy(shape)
        if not d["classes"]:
            d["classes"].append({"expose": False, "members": []})
        fid = 900
        for i, n in enumerate(extra[:4]):
            fid += 2
            if i % 2 == 0:
                m = {"k": "func", "f": {"name": "pub", "fid": fid, "expose": True, "oneway": False}}
            else:
                m = {"k": "prop", "expose": True, "g": {"name": "pub", "fid": fid, "expose": False, "oneway": False},
                     "s": {"name": "pub", "fid": fid + 1, "expose": False, "oneway": False}, "d": None}
            d["classes"][0]["members"].append([n, m])
        out.append(d)
        e = copy.deepcopy(d)
        for cl in e["classes"]:
            cl["expose"] = True
        out.append(e)
    return out


def _run(ctx, name, nshapes, do_model, extra_shapes=()):
    from props import c02_real
    real = c02_real.Real()
    try:
        codec = NameCodec(real)
        reserved = sorted(real.server._private_dunder_methods | SPEC_RESERVED)
        rng = ctx.sub_rng(name)
        gen = _Gen(rng)
        thorough = ctx.tier == "thorough"
        cases = []
        if name == "corr":
            for c in _load_corpus():
                keys = sorted(_shape_keys(c["shape"]))
                cases.append((c["shape"], c["reqs"], keys, "corpus/" + c["corpus"], c.get("events", []), c.get("prior"), c.get("reg", "strong")))
        for i, shape in enumerate(extra_shapes):
            keys, reqs = gen_requests(rng, shape, reserved, False)
            gen.fid = 500
            cases.append((shape, reqs, keys, "%s-seed#%d" % (name, i), gen.history(shape, keys), None, "strong"))
        for i in range(nshapes):
            shape = gen.shape()
            reg = rng.choice(["strong", "strong", "strong", "weak", "weak", "class"])
            if reg == "class":
                shape["inst"] = []          # the daemon makes the instance itself: no instance attributes
            keys, reqs = gen_requests(rng, shape, reserved, thorough and i % 20 == 0)
            events = gen.history(shape, keys)
            if reg == "class":
                events = [e for e in events if e["t"] not in ("is", "id")]
            cases.append((shape, reqs, keys, "%s#%d" % (name, i), events, gen.prior(shape) if rng.random() < 0.35 else None, reg))
        lines, reals, flagss = [], [], []
        for shape, reqs, keys, tag, events, prior, reg in cases:
            line, flags = _check_case(ctx, real, codec, shape, reqs, keys, tag, events, prior, reg)
            reals.append(line)
            flagss.append(flags)
            if do_model:
                lines.append(shape_line(codec, shape, reqs, events))
        if do_model:
            outs = common.run_driver("drv_c02", lines)
            ctx.corr_cases += sum(len(c[1]) + len(c[4]) for c in cases) + len(cases)
            for (shape, reqs, keys, tag, events, prior, reg), real_l, flags, model_l in zip(cases, reals, flagss, outs):
                model_l = _sort_model_line(model_l)
                r, m = _apply_coarse(real_l, flags), _apply_coarse(model_l, flags)
                if r == m:
                    continue
                rp, mp = r.split(" | "), m.split(" | ")
                if rp[0] != mp[0]:
                    suite = "build" if (rp[0].startswith("builderr") or mp[0].startswith("builderr")) else "metadata"
                    ctx.mismatch(suite, {"shape": shape, "tag": tag, "prior": prior}, rp[0], mp[0])
                items = [{"t": "q", "req": q} for q in reqs] + list(events)
                for i, (a, b) in enumerate(zip(rp[1:], mp[1:])):
                    if a != b:
                        steps = [e for e in items[:i] if e["t"] != "q"]
                        case = {"shape": shape, "tag": tag, "reg": reg, "req": items[i]["req"] if items[i]["t"] == "q" else None}
                        if steps:
                            case["steps"] = steps
                        if items[i]["t"] != "q":
                            case["step"] = items[i]
                        ctx.mismatch("history" if i >= len(reqs) else "dispatch", case, a, b)
                        break
                if len(rp) != len(mp) and rp[0] == mp[0]:
                    ctx.mismatch("dispatch", {"shape": shape, "tag": tag}, "%d replies" % (len(rp) - 1), "%d replies" % (len(mp) - 1))
    finally:
        real.drop()
        real.close()


def correspondence(ctx):
    _run(ctx, "corr", ctx.n(150, 2400), True)


def oracle(ctx):
    # step D runs inside _run on the same cases; in search mode it runs again on fresh shapes
    if ctx.search_mode:
        seeds, seen = [], set()
        for m in ctx.mismatches[:60]:
            case = m.get("case") or {}
            sh = case.get("shape")
            names = req_names(case["req"]) if case.get("req") else []
            key = json.dumps([sh, names], sort_keys=True)
            if sh and key not in seen:
                seen.add(key)
                seeds += _search_variants(sh, names)
        _run(ctx, "search", ctx.n(100, 1000), False, extra_shapes=seeds[:120])


def replay(ctx, case):
    f = case.get("failing_input") or {}
    c = f.get("case")
    if not c:
        print("replay file names no failing input:", case.get("no_longer_checks"))
        return 1
    from props import c02_real
    real = c02_real.Real()
    try:
        shape, req, steps, prior, reg = c["shape"], c.get("req"), c.get("steps", []), c.get("prior"), c.get("reg", "strong")
        err = real.build(shape, prior, reg)
        if prior:
            print("registered first, an object of classes with the same module/qualified names (%s): %s" % (real.prior_state, json.dumps(prior["shape"])))
            if real.prior_state in ("kept", "gone"):
                print("  its advertised metadata:", real.prior_md)
        print("shape (registered: %s): %s" % ({"strong": "the instance", "weak": "the instance, weak=True", "class": "the class"}[reg], json.dumps(shape)))
        if err:
            print("the decorators refused the shape:", err)
            return 0
        try:
            md = real.first_metadata()
        except c02_real.MetadataFailed as x:
            print("the daemon does not advertise a member list:", x)
            print("VIOLATION reproduced")
            return 1
        if real.lazies:
            print("a class attribute of the shape is resolved lazily:", "a second get_metadata request was made while the first was parked "
                  "inside the computation; the first was told %s" % (real.first_other,) if real.first_other is not None
                  else "%d get_metadata request(s) failed part-way before the first list was told" % real.first_failed)
        print("advertised metadata (this also fills the per-class member cache):", md)
        cur = shape
        for ev in steps:
            out = real.step(ev)
            print("run-time change %s -> %s" % (json.dumps(ev), out))
            if out == "step":
                cur = apply_step(cur, ev)
        if req is not None:
            reply, eff = real.request(req)
            print("request %s -> reply %s, target code that ran (effect ids): %s" % (json.dumps(req), reply, eff))
            bad = judge(cur, req, reply, eff)
        else:
            if steps:
                print("resetMetadataCache ->", real.step({"t": "rm"}))
                md = real.metadata()
                print("advertised metadata now:", md)
            other = real.first_other if not steps and real.first_other is not None else {"methods": [], "attrs": []}
            served = _probe_served(real, {k for cl in cur["classes"] for k, _ in cl["members"]} | {k for k, _ in cur["inst"]}
                                   | set(md["methods"]) | set(md["attrs"]) | set(other["methods"]) | set(other["attrs"]))
            print("served:", served)
            bad = judge_metadata(cur, md, served)
            if other.get("oneway") is not None and other != md:
                bad = bad + judge_metadata(cur, other, served)
        for sig, desc in bad:
            print("  [%s] %s" % (sig, desc))
        print("VIOLATION reproduced" if bad else "not reproduced")
        return 1 if bad else 0
    finally:
        real.drop()
        real.close()
