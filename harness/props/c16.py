"""C16 — daemon registry: an id reaches exactly its object, for as long as registered.

Real side: a real `Pyro5.server.Daemon` (bound to port 0 on 127.0.0.1, request loop never started), a pool of
objects and exposed classes, histories of register / unregister / gc / uriFor / proxyFor / call / return-object /
registered steps.  `call` goes through `daemon.handleRequest(conn)` with a raw MSG_INVOKE over an in-memory
connection; `return-object` serialises the object with the real serializer (which runs the registered type
replacement `_pyro_obj_to_auto_proxy`), deserialises it as the client would and, when a proxy arrives, makes a
call addressed to the proxy's object id.
Model side: lean/PyroModel/Registry.lean via drv_c16, configured with the five source facts the extractor reads.
Oracle: an independent Python statement of the property (a plain dict id -> object), checked after every step.
"""
import ast
import json
import os
import weakref

import common

ID = "C16"
LEAN_MODEL_TARGETS = ["drv_c16"]
LEAN_PROOF_TARGETS = ["PyroProps.C16", "PyroProps.C16Ast", "PyroProps.C16Src"]
AUDIT_FILES = ["PyroModel/Registry.lean", "PyroModel/Gen/C16.lean", "PyroProofs/Registry.lean", "PyroProps/C16.lean",
               "PyroModel/RegistrySrc.lean", "PyroProps/C16Ast.lean", "PyroProps/C16Src.lean"]
THEOREMS = [
    "Pyro.C16.C16_gen_fixes", "Pyro.C16.C16_gen_shape", "Pyro.C16.C16_gen_order",
    "Pyro.C16.C16_failed_register_unchanged",
    "Pyro.C16.C16_refines_partial", "Pyro.C16.C16_call_exact", "Pyro.C16.C16_registered_exact",
    "Pyro.C16.C16_double_refused", "Pyro.C16.C16_daemon_fixed", "Pyro.C16.C16_attrs_of_registered",
    "Pyro.C16.C16_return_partial", "Pyro.C16.C16_return_unregistered", "Pyro.C16.C16_no_dead_weak",
    "Pyro.C16.C16_not_return_Statement",
    "Pyro.C16.C16_F16a_needs_fix", "Pyro.C16.C16_F16b_needs_fix", "Pyro.C16.C16_F16c_needs_fix",
    "Pyro.C16.C16_F16d_needs_fix", "Pyro.C16.C16_F16e_needs_fix",
    "Pyro.Registry.invW_step", "Pyro.Registry.back_step", "Pyro.Registry.abs_step", "Pyro.Registry.reach",
    # the source, transcribed on every run (harness/props/c16_tr.py -> namespace Pyro.Gen.C16Src), = the model
    "Pyro.C16.C16_registered_translated", "Pyro.C16.C16_finalizer_translated", "Pyro.C16.C16_uriFor_translated",
    "Pyro.C16.C16_registeredIds_translated", "Pyro.C16.C16_autoProxy_translated", "Pyro.C16.C16_unregister_translated",
    "Pyro.C16.C16_register_translated",
    "Pyro.C16.C16_source_failed_register_unchanged", "Pyro.C16.C16_source_double_refused",
    "Pyro.C16.C16_source_return_unregistered", "Pyro.C16.C16_source_return_registered",
]
SUITES = ["history", "transcription"]
RULE = ("histories (<= 25 steps) over a pool of 16 objects — 6 of 3 ordinary exposed classes (one class falsy, one whose "
        "instances all compare equal), 2 of a __slots__ class that cannot carry the pyro attributes (register must fail "
        "cleanly), 5 whose classes derive from set / UUID / Decimal / datetime / array, 3 of a base class and its subclass "
        "(every history starts with no type replacement installed) — and the 3 ordinary classes "
        "themselves; ids: 'Pyro.Daemon', 4 explicit strings, None / '' (generated) / a non-string, and ids generated earlier "
        "in the same history; force and weak flags; the daemon's own DaemonObject as argument; garbage-collection points; "
        "serpent/json/msgpack for returned objects, returned directly or nested in a container; all choices from VERIF_SEED. "
        "A history is non-trivial when the real daemon accepted >= 2 registrations and >= 1 call or returned object reached "
        "a pool object / arrived as proxy; distinct = distinct step list")
ASSUMPTIONS = [
    "uuid4 never repeats and never equals an explicit id (generated ids are compared by order of appearance)",
    "CPython frees an object, and runs its weakref finalizers, as soon as the last strong reference is dropped "
    "(the harness checks this at every gc step; asynchronous collection between lookup and dereference is not exhibited)",
    "a type that was registered once keeps its type-replacement hook (hooks are never removed by the daemon); the model "
    "has no hook table because an object without hook and an object whose hook returns it unchanged serialise alike",
    "one daemon; objects carrying another daemon's _pyroDaemon are outside the history alphabet",
]
TRUSTED = ["the in-memory connection and the pool classes of harness/props/c16.py",
           "the extraction-time probes (witness histories on a real Daemon, instrumented register(), replacement-vs-conversion "
           "probes of default()) that decide the five Cfg switches and the other generated facts (a wrong switch shows up as a "
           "correspondence mismatch)"]

# pool (mirrors `classOf` / `canSet` / `viaClassToDict` of PyroModel/Registry.lean):
#   objects 0-5: instances of the ordinary classes 0-2 (k mod 3); only these classes are ever registered as classes
#   objects 6-7: instances of class 3, which has __slots__ without _pyroId/_pyroDaemon (setting them raises)
#   objects 8-12: instances of classes 4-8 deriving from set, uuid.UUID, decimal.Decimal, datetime.datetime, array.array
#   object 13: instance of the ordinary class 9; objects 14-15: instances of class 10, a SUBCLASS of class 9
NOBJ, NCLS, REGCLS = 16, 11, 3


def class_of(k):
    return k % 3 if k < 6 else 3 if k < 8 else k - 4 if k < 13 else 9 if k == 13 else 10

NAMES = ["alpha", "b.b", "obj_c", "d-d"]
SERS = {"s": "serpent", "j": "json", "m": "msgpack"}
CORPUS = os.path.join(common.VERIF, "corpus", "C16")


# ----------------------------------------------------------------------------------------------------------
# extractor
# ----------------------------------------------------------------------------------------------------------
def _forget_types(S, classes):
    """remove what Daemon.register / a probe left in the serializers' per-type tables for these classes"""
    for cls in classes:
        try:
            import serpent
            serpent.unregister_class(cls)
        except Exception:
            pass
        for scls in (S.JsonSerializer, getattr(S, "MsgpackSerializer", None)):
            if scls is not None:
                getattr(scls, "_%s__type_replacements" % scls.__name__).pop(cls, None)


def _facts():
    """Facts about the CURRENT source, obtained by running it (probes on a real Daemon / the real serializers), not by
    matching its spelling: each of the five Cfg switches is the outcome of the witness history of its finding; the order of
    the effects of register() is the observed order on instrumented arguments."""
    common.repo_on_path()
    import gc
    import inspect
    import weakref as _weakref
    from Pyro5 import server, serializers, core, errors, config
    S = serializers

    probe_cls = server.expose(type("C16Probe", (object,), {"__module__": "verif_c16_probe", "ping": lambda self: None}))
    made = []
    old_type = config.SERVERTYPE
    config.SERVERTYPE = "multiplex"      # no worker threads, no sleep in close(); same registry code

    def daemon():
        d = server.Daemon(host="127.0.0.1", port=0)
        made.append(d)
        return d

    def entry(d, ident):
        v = d.objectsById.get(ident)
        return v() if isinstance(v, _weakref.ref) else v

    def unrecognised(what, got):
        raise ValueError("C16 extractor: probe '%s' behaves in neither the original nor the repaired way: %r" % (what, got))

    try:
        # (a) the hook: stale attributes after unregister(id) / after a forced take-over of the id
        d = daemon()
        o, o2 = probe_cls(), probe_cls()
        d.register(o, "a")
        d.unregister("a")
        try:
            S.serializers["json"].dumps(o)
            r1 = "byvalue"
        except errors.DaemonError:
            r1 = "error"
        d = daemon()
        o, o2 = probe_cls(), probe_cls()
        d.register(o, "a")
        d.register(o2, "a", force=True)
        data = json.loads(bytes(S.serializers["json"].dumps({"x": o})).decode("utf-8"))["x"]
        r2 = "proxy" if str(data.get("__class__", "")).endswith("Proxy") else "byvalue"
        if (r1, r2) == ("byvalue", "byvalue"):
            hook_checks = True
        elif (r1, r2) == ("error", "proxy"):
            hook_checks = False
        else:
            unrecognised("returned object with stale attributes", (r1, r2))
        # (b) identity test of register for a weakly registered object
        d = daemon()
        o = probe_cls()
        d.register(o, "a", weak=True)
        try:
            d.register(o, "b")
            unpacks = False
        except errors.DaemonError:
            unpacks = True
        # (c) the daemon's own id
        d = daemon()
        own = d.objectsById[core.DAEMON_NAME]
        try:
            d.register(probe_cls(), core.DAEMON_NAME, force=True)
            refuse_daemon = False
        except errors.DaemonError:
            refuse_daemon = True
        if refuse_daemon and d.objectsById.get(core.DAEMON_NAME) is not own:
            unrecognised("forced registration under the daemon's id", "refused but replaced")
        # (d) unregister(obj) after a forced take-over
        d = daemon()
        o, o2 = probe_cls(), probe_cls()
        d.register(o, "a")
        d.register(o2, "a", force=True)
        d.unregister(o)
        unreg_owner = entry(d, "a") is o2
        if not unreg_owner and "a" in d.objectsById:
            unrecognised("unregister(displaced object)", entry(d, "a"))
        # (e) finalizer of a weak registration after a forced take-over
        d = daemon()
        o, o2 = probe_cls(), probe_cls()
        d.register(o, "a", weak=True)
        d.register(o2, "a", force=True)
        del o
        gc.collect()
        fin_owner = entry(d, "a") is o2
        if not fin_owner and "a" in d.objectsById:
            unrecognised("collection of a displaced weak registration", entry(d, "a"))
        # unregister leaves the daemon's own entry alone (by id and by object)
        d = daemon()
        own = d.objectsById[core.DAEMON_NAME]
        d.unregister(core.DAEMON_NAME)
        try:
            d.unregister(own)
        except Exception:
            pass
        unreg_guard = d.objectsById.get(core.DAEMON_NAME) is own
        # a new daemon's table holds exactly its DaemonObject, which carries the daemon's id
        init_direct = list(d.objectsById) == [core.DAEMON_NAME] and isinstance(own, server.DaemonObject) \
            and getattr(own, "_pyroId", None) == core.DAEMON_NAME
        # registered() = the keys of the table, in table order, weak registrations included
        o, o2 = probe_cls(), probe_cls()
        d.register(o, "b", weak=True)
        d.register(o2, "a")
        d.register(probe_cls, "c")
        registered_keys = list(server.DaemonObject(d).registered()) == list(d.objectsById.keys()) == [core.DAEMON_NAME, "b", "a", "c"]
        # class_to_dict clears an existing _pyroDaemon attribute
        o = probe_cls()
        o._pyroDaemon = 5
        S.SerializerBase.class_to_dict(o)
        clears = o._pyroDaemon is None

        # ---- order of the EFFECTS of a successful register(obj, "id", weak=True), observed on instrumented arguments
        events = []

        def log(e):
            if not events or events[-1] != e:
                events.append(e)

        class Table(dict):
            def __contains__(self, k):
                log("lookup")
                return dict.__contains__(self, k)

            def get(self, k, default=None):
                log("lookup")
                return dict.get(self, k, default)

            def __setitem__(self, k, v):
                log("insert")
                dict.__setitem__(self, k, v)

        class Traced(object):
            def ping(self):
                pass

            def __setattr__(self, name, value):
                if name in ("_pyroId", "_pyroDaemon"):
                    log("attrs")
                object.__setattr__(self, name, value)
        Traced = server.expose(Traced)

        class HookRecorder(object):
            def register_type_replacement(self, object_type, replacement_function):
                log("hooks")

        class WeakrefShim(object):
            def __getattr__(self, name):
                return getattr(_weakref, name)

            def finalize(self, *a, **k):
                log("finalize")

        d = daemon()
        d.objectsById = Table(d.objectsById)
        saved_sers, saved_weakref = dict(S.serializers), server.weakref
        try:
            for k in list(S.serializers):
                S.serializers[k] = HookRecorder()
            server.weakref = WeakrefShim()
            t = Traced()
            d.register(t, "traced", weak=True)
            log("return")
        finally:
            S.serializers.clear()
            S.serializers.update(saved_sers)
            server.weakref = saved_weakref
        effects = list(events)

        # ---- the type replacement wins over the builtin conversions of default(): probed per serializer and base type
        import array, datetime, decimal, uuid
        bases = [("set", set, lambda c: c(["x"])), ("UUID", uuid.UUID, lambda c: c(int=5)),
                 ("Decimal", decimal.Decimal, lambda c: c("1.5")), ("datetime", datetime.datetime, lambda c: c(2020, 1, 2)),
                 ("date", datetime.date, lambda c: c(2020, 1, 2)), ("array", array.array, lambda c: c("i", [1]))]
        hook_first = []
        for sname in ("json", "msgpack"):
            ser = S.serializers.get(sname)
            if ser is None:
                continue
            for bname, base, mk in bases:
                cls = type("C16Probe_" + bname, (base,), {"__module__": "verif_c16_probe"})
                try:
                    # (the replacement is a plain set: default() turns that into a list on either serializer)
                    ser.register_type_replacement(cls, lambda obj: {"replaced-by-hook"})
                    got = ser.loads(ser.dumps([mk(cls)]))
                    hook_first.append(("%s:%s" % (sname, bname), [list(x) if isinstance(x, (list, tuple)) else x
                                                                    for x in got] == [["replaced-by-hook"]]))
                finally:
                    _forget_types(S, [cls])
        # serpent dispatches on isinstance: with a replacement installed for a base class and then for its subclass, an
        # instance of the subclass still gets the replacement
        ser = S.serializers.get("serpent")
        if ser is not None:
            pb = type("C16Probe_base", (object,), {"__module__": "verif_c16_probe"})
            ps = type("C16Probe_sub", (pb,), {"__module__": "verif_c16_probe"})
            try:
                ser.register_type_replacement(pb, lambda obj: ["replaced-by-hook"])
                ser.register_type_replacement(ps, lambda obj: ["replaced-by-hook"])
                import serpent as _serpent       # raw decoding: an unreplaced probe object is just a class dict
                hook_first.append(("serpent:subclass-after-base", _serpent.loads(ser.dumps([ps()])) == [["replaced-by-hook"]]))
                hook_first.append(("serpent:base", _serpent.loads(ser.dumps([pb()])) == [["replaced-by-hook"]]))
            finally:
                _forget_types(S, [pb, ps])
    finally:
        config.SERVERTYPE = old_type
        for d in made:
            try:
                d.close()
            except Exception:
                pass
        _forget_types(S, [probe_cls] + ([Traced] if "Traced" in dir() else []))

    # the dispatch lookup of handleRequest goes through the table and the weak-reference unpacking (source fact, loose:
    # some call in handleRequest that involves objectsById / _registered and the requested id)
    tree = ast.parse(open(server.__file__).read())
    dcls = [n for n in tree.body if isinstance(n, ast.ClassDef) and n.name == "Daemon"][0]
    handle = [n for n in dcls.body if isinstance(n, ast.FunctionDef) and n.name == "handleRequest"]
    dispatch = False
    if handle:
        for n in ast.walk(handle[0]):
            if isinstance(n, ast.Call):
                src = ast.unparse(n)
                if ("_unpack_weakref(" in src or "_registered(" in src) and ("objectsById" in src or "_registered(" in src):
                    dispatch = True
    # serializers with a working type replacement hook
    with_hook = []
    for name, ser in sorted(S.serializers.items()):
        f = type(ser).__dict__.get("register_type_replacement")
        if f is None:
            continue
        fsrc = ast.parse(__import__("textwrap").dedent(inspect.getsource(f.__func__))).body[0]
        stmts = [n for n in fsrc.body if not isinstance(n, ast.Pass)
                 and not (isinstance(n, ast.Expr) and isinstance(n.value, ast.Constant))]
        if stmts:
            with_hook.append(name)
    return {
        "daemonName": core.DAEMON_NAME,
        "cfg": [hook_checks, unpacks, refuse_daemon, unreg_owner, fin_owner],
        "unregisterGuardsDaemonName": unreg_guard,
        "registeredIsKeys": registered_keys,
        "dispatchLookup": dispatch,
        "initDirect": init_direct,
        "hookSerializers": with_hook,
        "classToDictClearsDaemon": clears,
        "registerEffects": effects,
        "defaultHookFirst": hook_first,
    }


def extract():
    f = _facts()
    b = lambda x: "true" if x else "false"
    c = f["cfg"]
    import Pyro5.server as _S, Pyro5.core as _C
    from props import c16_tr
    src_text, _notes = c16_tr.transcribe(_S, _C)     # raises Untranslatable: reported by the runner as a broken tie
    return f"""-- GENERATED by harness/props/c16.py from Pyro5/server.py, Pyro5/serializers.py, Pyro5/core.py — do not edit
import PyroModel.RegistrySrc
namespace Pyro.Gen.C16
/-- core.DAEMON_NAME -/
def daemonName : String := {json.dumps(f["daemonName"])}
/-- `_pyro_obj_to_auto_proxy` compares the registered object with `obj` before calling `proxyFor` -/
def autoProxyChecksEntry : Bool := {b(c[0])}
/-- the "already has a Pyro id" test of `register` dereferences a weak registration -/
def identityUnpacksWeak : Bool := {b(c[1])}
/-- `register` raises for `objectId == core.DAEMON_NAME` -/
def refuseDaemonName : Bool := {b(c[2])}
/-- `unregister(obj)` tests that the entry is that object -/
def unregChecksOwner : Bool := {b(c[3])}
/-- the finalizer of a weak registration tests that the entry is its weak reference -/
def finalizerChecksOwner : Bool := {b(c[4])}
/-- `unregister` returns early for `core.DAEMON_NAME` -/
def unregisterGuardsDaemonName : Bool := {b(f["unregisterGuardsDaemonName"])}
/-- probe: `DaemonObject.registered()` = the keys of the table, in table order, weak registrations included -/
def registeredIsKeys : Bool := {b(f["registeredIsKeys"])}
/-- `handleRequest` looks the object up with `_unpack_weakref(self.objectsById.get(objId))` -/
def dispatchLookup : Bool := {b(f["dispatchLookup"])}
/-- `Daemon.__init__` creates `objectsById` with exactly the DaemonObject in it -/
def initDirect : Bool := {b(f["initDirect"])}
/-- serializers whose `register_type_replacement` does something -/
def hookSerializers : List String := {json.dumps(f["hookSerializers"])}
/-- `SerializerBase.class_to_dict` sets `obj._pyroDaemon = None` when the attribute exists -/
def classToDictClearsDaemon : Bool := {b(f["classToDictClearsDaemon"])}
/-- the effects of a successful `register(obj, id, weak=True)` in the order they were observed on instrumented arguments
    (table lookups, attribute assignments on the object, hook installation, table insertion, finalizer, return) -/
def registerEffects : List String := {json.dumps(f["registerEffects"])}
/-- probe per serializer and builtin base type: a registered type replacement wins over `default()`'s builtin conversion -/
def defaultHookFirst : List (String × Bool) := [{", ".join('(%s, %s)' % (json.dumps(n), b(v)) for n, v in f["defaultHookFirst"])}]
end Pyro.Gen.C16
""" + src_text


# ----------------------------------------------------------------------------------------------------------
# real side
# ----------------------------------------------------------------------------------------------------------
class _Sock:
    def getpeername(self):
        return ("c16-fake-peer", 0)


class _Conn:
    """in-memory connection"""

    def __init__(self, errors, data=b""):
        self._errors = errors
        self.inbuf = bytes(data)
        self.pos = 0
        self.sent = bytearray()
        self.sock = _Sock()
        self.keep_open = False
        self.pyroInstances = {}

    def feed(self, data):
        self.inbuf = bytes(data)
        self.pos = 0
        self.sent = bytearray()

    def recv(self, n):
        if len(self.inbuf) - self.pos < n:
            raise self._errors.ConnectionClosedError("receiving: not enough data")
        chunk = self.inbuf[self.pos:self.pos + n]
        self.pos += n
        return chunk

    def send(self, data):
        self.sent += bytes(data)

    def close(self):
        pass


class Real:
    """the pool classes live for a whole run (their pyro attributes are wiped between histories); objects, daemon
    and connection are new for every history"""

    MODULE = "verif_c16"

    def __init__(self):
        common.repo_on_path()
        from Pyro5 import server, protocol, serializers, errors, core, client, config
        self.server, self.protocol, self.serializers, self.errors, self.core, self.client = \
            server, protocol, serializers, errors, core, client
        # the multiplex transport has no worker threads and no sleep in close(); the registry code is the same
        self.config, self._servertype = config, config.SERVERTYPE
        config.SERVERTYPE = "multiplex"
        self.log = []
        self.classes = []
        for c in range(NCLS):
            self.classes.append(self._make_class(c))
        self.sers = {k: serializers.serializers[v] for k, v in SERS.items() if v in serializers.serializers}
        for c, cls in enumerate(self.classes):
            serializers.SerializerBase.register_dict_to_class("%s.PoolC%d" % (self.MODULE, c), self._from_dict)
        self.daemon = None
        self.seq = 0
        self.last_msg = ""

    @staticmethod
    def _from_dict(classname, d):
        return ("byvalue", classname, d.get("tag"))

    def _make_class(self, c):
        log = self.log

        def __init__(self, k=None):
            self.tag = "i%d" % c if k is None else "o%d" % k

        def ping(self):
            log.append(self.tag)

        members = {"__module__": self.MODULE, "ping": self.server.expose(ping)}
        if c < 3:
            members["__init__"] = __init__
            if c == 1:
                # instances of this pool class are FALSY (an empty container-like object): a registered object is
                # reachable whatever its truth value
                members["__bool__"] = lambda self: False
            if c == 2:
                # all instances of this pool class compare EQUAL (and hash alike): the registry goes by identity
                members["__eq__"] = lambda self, other: type(other) is type(self)
                members["__hash__"] = lambda self: 7
            return self.server.expose(type("PoolC%d" % c, (object,), members))
        if c >= 9:
            # two ordinary classes related by inheritance: serializers that dispatch on isinstance (serpent) see an instance
            # of the subclass through whichever of the two hooks was installed first
            members["__init__"] = __init__
            return self.server.expose(type("PoolC%d" % c, (object,) if c == 9 else (self.classes[9],), members))
        if c == 3:
            # no room for the pyro attributes: register() must fail, and fail without side effects
            members["__slots__"] = ("tag", "__weakref__")
            # by-value form without the __weakref__ slot (which holds the harness's weak reference)
            members["__getstate__"] = lambda self: {"__class__": "%s.PoolC3" % Real.MODULE, "tag": self.tag}
            return type("PoolC3", (object,), members)
        import array, datetime, decimal, uuid
        base = {4: set, 5: uuid.UUID, 6: decimal.Decimal, 7: datetime.datetime, 8: array.array}[c]
        if c == 5:
            members["__setattr__"] = object.__setattr__      # uuid.UUID forbids attribute assignment
        return type("PoolC%d" % c, (base,), members)

    def _make_object(self, k):
        c = class_of(k)
        cls = self.classes[c]
        if c < 3 or c >= 9:
            return cls(k)
        o = {3: lambda: cls(), 4: lambda: cls(["x", "y"]), 5: lambda: cls(int=k), 6: lambda: cls("1.5"),
             7: lambda: cls(2020, 1, 2, 3, 4, 5), 8: lambda: cls("i", [1, 2, 3])}[c]()
        o.tag = "o%d" % k
        return o

    def close(self):
        self.end_history()
        self.config.SERVERTYPE = self._servertype
        S = self.serializers
        for c, cls in enumerate(self.classes):
            S.SerializerBase.unregister_dict_to_class("%s.PoolC%d" % (self.MODULE, c))
            try:
                import serpent
                serpent.unregister_class(cls)
            except Exception:
                pass
            for scls in (S.JsonSerializer, getattr(S, "MsgpackSerializer", None)):
                if scls is not None:
                    getattr(scls, "_%s__type_replacements" % scls.__name__).pop(cls, None)

    # ---------------------------------------------------------------- one history
    def begin_history(self):
        self.end_history()
        for cls in self.classes:
            for a in ("_pyroId", "_pyroDaemon"):
                if a in cls.__dict__:
                    delattr(cls, a)
        # every history starts like a fresh process: no type replacement installed yet (their installation ORDER matters to
        # serializers that dispatch on isinstance)
        _forget_types(self.serializers, self.classes)
        self.daemon = self.server.Daemon(host="127.0.0.1", port=0)
        self.dobj = self.daemon.objectsById[self.core.DAEMON_NAME]
        self.pool = [self._make_object(k) for k in range(NOBJ)]
        self.wrefs = [weakref.ref(o) for o in self.pool]
        self.conn = _Conn(self.errors)
        self.gens = []          # generated ids in order of appearance
        self.log.clear()

    def end_history(self):
        if self.daemon is not None:
            self.pool = None
            self.conn = None
            self.daemon.close()
            self.daemon = None

    # ---------------------------------------------------------------- tokens
    def id_of(self, tok):
        if tok == "D":
            return self.core.DAEMON_NAME
        if tok[0] == "n":
            return NAMES[int(tok[1:])]
        if tok[0] == "r":
            return self.gens[int(tok[1:]) % len(self.gens)] if self.gens else NAMES[0]
        raise ValueError(tok)

    def tok_of(self, ident):
        if ident == self.core.DAEMON_NAME:
            return "D"
        if ident in NAMES:
            return "n%d" % NAMES.index(ident)
        if isinstance(ident, str) and ident.startswith("obj_") and len(ident) == 36:
            if ident not in self.gens:
                self.gens.append(ident)
            return "g%d" % self.gens.index(ident)
        return "?%r" % (ident,)

    def ent(self, tok):
        """-> (object, is_dead)"""
        if tok[0] == "c":
            return self.classes[int(tok[1:])], False
        o = self.pool[int(tok[1:])]
        return o, o is None

    def ref_tok(self, v):
        if isinstance(v, weakref.ref):
            v = v()
            if v is None:
                return "?deadref"
        if v is self.dobj:
            return "D"
        for k, o in enumerate(self.pool):
            if o is v:
                return "o%d" % k
        for c, cl in enumerate(self.classes):
            if cl is v:
                return "c%d" % c
        return "?%s" % type(v).__name__

    def exc_tok(self, x):
        E = self.errors
        self.last_msg = str(x)[:40]
        if isinstance(x, E.DaemonError):
            return "err:D"
        for t, n in ((TypeError, "T"), (ValueError, "V"), (AttributeError, "A")):
            if type(x) is t:
                return "err:" + n
        return "err:?%s" % type(x).__name__

    def target(self, tok):
        """-> (python argument, is_dead)"""
        if tok == "N":
            return None, False
        if tok == "X":
            return [1, 2, 3], False
        if tok == "B":
            return self.dobj, False       # the daemon's own DaemonObject
        if tok[0] in "oc":
            return self.ent(tok)
        return self.id_of(tok), False

    # ---------------------------------------------------------------- steps
    def do_call(self, ident, ser=None):
        P = self.protocol
        ser = ser or self.sers["s"]
        self.seq = (self.seq + 1) % 65536
        msg = P.SendingMessage(P.MSG_INVOKE, 0, self.seq, ser.serializer_id, ser.dumpsCall(ident, "ping", [], {}))
        self.conn.feed(msg.data)
        del self.log[:]
        try:
            self.daemon.handleRequest(self.conn)
        except Exception as x:
            return "raised:" + type(x).__name__
        reply = P.recv_stub(_Conn(self.errors, bytes(self.conn.sent)), [P.MSG_RESULT])
        if reply.seq != self.seq:
            return "?seq"
        val = ser.loads(reply.data)
        if reply.flags & P.FLAGS_EXCEPTION:
            if isinstance(val, self.errors.DaemonError):
                m = str(val)
                if m == "unknown object":
                    return "unknown"
                if m.startswith("Weakly registered"):
                    return "deadweak"
                return "err:D"
            return "err:?%s" % type(val).__name__
        if val is not None:
            return "?result"
        if len(self.log) == 0:
            return "reached:D"          # DaemonObject.ping does nothing
        if len(self.log) != 1:
            return "?log%d" % len(self.log)
        t = self.log[0]
        return "inst:c%s" % t[1:] if t[0] == "i" else "reached:" + t

    def do_return(self, k, ser, nested=False):
        obj = self.pool[k]
        try:
            data = ser.dumps({"x": [obj, 1]} if nested else obj)
        except Exception as x:
            return self.exc_tok(x)
        finally:
            del obj
        val = ser.loads(data)
        if nested:
            if not (isinstance(val, dict) and isinstance(val.get("x"), (list, tuple)) and len(val["x"]) == 2):
                return "?value:%r" % (val,)
            val = val["x"][0]
        if isinstance(val, self.client.Proxy):
            uri = val._pyroUri
            if uri.location != self.daemon.locationStr:
                return "?proxy-elsewhere"
            return "proxy:%s>%s" % (self.tok_of(uri.object), self.do_call(uri.object, ser))
        if 8 <= k < 13:
            return "byvalue"        # whatever data the serializer makes of a set / UUID / Decimal / datetime / array subclass
        if isinstance(val, tuple) and len(val) == 3 and val[0] == "byvalue" and val[2] == "o%d" % k:
            return "byvalue"
        return "?value:%r" % (val,)

    def step(self, op):
        """op = list of tokens; returns the canonical result string"""
        d = self.daemon
        kind = op[0]
        try:
            if kind == "R":
                e, dead = self.ent(op[1])
                if dead:
                    return "dead"
                ia = {"N": None, "E": "", "X": 7}.get(op[2], None) if op[2] in "NEX" else self.id_of(op[2])
                uri = d.register(e, ia, force=op[3] == "1", weak=op[4] == "1")
                del e
                if uri.location != d.locationStr:
                    return "?uri-elsewhere"
                return "uri:" + self.tok_of(uri.object)
            if kind == "U":
                t, dead = self.target(op[1])
                if dead:
                    return "dead"
                r = d.unregister(t)
                return "ok" if r is None else "?ret"
            if kind == "G":
                k = int(op[1])
                if self.pool[k] is None:
                    return "dead"
                o = self.pool[k]
                if any(v is o for v in d.objectsById.values()):
                    return "kept"
                del o
                self.pool[k] = None
                if self.wrefs[k]() is not None:
                    import gc
                    gc.collect()
                    if self.wrefs[k]() is not None:
                        # something other than a table entry keeps it alive: not what the model says ("collected")
                        self.pool[k] = self.wrefs[k]()
                        return "leaked"
                return "collected"
            if kind in "FP":
                t, dead = self.target(op[1])
                if dead:
                    return "dead"
                if kind == "F":
                    uri = d.uriFor(t)
                    return "uri:" + self.tok_of(uri.object)
                p = d.proxyFor(t)
                return "proxy:" + self.tok_of(p._pyroUri.object)
            if kind == "C":
                return self.do_call(self.id_of(op[1]), list(self.sers.values())[self.seq % len(self.sers)])
            if kind == "V":
                k = int(op[1])
                if self.pool[k] is None:
                    return "dead"
                return self.do_return(k, self.sers.get(op[2].lower()) or self.sers["j"], nested=op[2].isupper())
            if kind == "L":
                return "ids:" + ",".join(sorted(self.tok_of(i) for i in self.dobj.registered()))
        except Exception as x:
            if isinstance(x, RuntimeError):
                raise
            return self.exc_tok(x)
        raise ValueError(op)

    def registry(self):
        """id token -> (ref token, weak)"""
        out = {}
        for i, v in self.daemon.objectsById.items():
            out[self.tok_of(i)] = (self.ref_tok(v), isinstance(v, weakref.ref))
        return out

    def state_str(self):
        objs = ",".join("%s=%s/%s" % (i, r, "w" if w else "s") for i, (r, w) in sorted(self.registry().items()))
        attrs = []
        for k in range(NOBJ):
            o = self.pool[k]
            attrs.append("o%d:dead" % k if o is None else "o%d:%s" % (k, self._attrs(getattr(o, "__dict__", {}))))
        for c, cl in enumerate(self.classes):
            attrs.append("c%d:%s" % (c, self._attrs(cl.__dict__)))
        return objs + " | " + " ".join(attrs)

    def _attrs(self, dct):
        pid = self.tok_of(dct["_pyroId"]) if "_pyroId" in dct else "-"
        if "_pyroDaemon" not in dct:
            dm = "-"
        else:
            v = dct["_pyroDaemon"]
            dm = "none" if v is None else ("this" if v is self.daemon else "?other")
        return pid + "/" + dm


def describe(op):
    """the Python call a step stands for"""
    def ident(t):
        return {"D": "'Pyro.Daemon'"}.get(t) or (repr(NAMES[int(t[1:])]) if t[0] == "n" else "<generated id #%s>" % t[1:])

    def target(t):
        return {"N": "None", "X": "[1, 2, 3]", "B": "<the daemon's DaemonObject>"}.get(t) or (t if t[0] in "oc" else ident(t))
    k = op[0]
    if k == "R":
        ia = {"N": "None", "E": "''", "X": "7"}.get(op[2]) or ident(op[2])
        return "daemon.register(%s, %s, force=%s, weak=%s)" % (op[1], ia, op[3] == "1", op[4] == "1")
    if k == "U":
        return "daemon.unregister(%s)" % target(op[1])
    if k == "G":
        return "del o%s  # last reference outside the daemon" % op[1]
    if k == "F":
        return "daemon.uriFor(%s)" % target(op[1])
    if k == "P":
        return "daemon.proxyFor(%s)" % target(op[1])
    if k == "C":
        return "call ping() on id %s" % ident(op[1])
    if k == "V":
        return "return o%s from a remote method (%s)" % (op[1], SERS[op[2].lower()])
    return "DaemonObject.registered()"


def _canon_model(line):
    """sort the dict-order parts of a driver reply (ids listings, final registry)"""
    parts = line.split(" | ")
    if len(parts) == 4 and parts[3].startswith("src="):
        parts = parts[:3]           # the transcription's verdict is judged separately (suite "transcription")
    if len(parts) != 3:
        return line
    rs = []
    for r in parts[0].split(";"):
        if r.startswith("ids:"):
            r = "ids:" + ",".join(sorted(r[4:].split(",")))
        rs.append(r)
    objs = ",".join(sorted(parts[1].split(","))) if parts[1] else ""
    return ";".join(rs) + " | " + objs + " | " + parts[2]


# ----------------------------------------------------------------------------------------------------------
# oracle: the property, stated over a plain dict (independent of the Lean model)
# ----------------------------------------------------------------------------------------------------------
class Spec:
    def __init__(self):
        self.exp = {"D": ("D", False)}      # id token -> (ref token, weak)
        self.dead = set()
        self.aliased = set()                # entities that were given a second id by force (documented escape hatch)
        self.how = {}                       # entity -> how it lost its last registration
        self.stopped = False
        self.fails = []                     # (signature, description)

    def ids_of(self, e):
        return [i for i, (r, _) in self.exp.items() if r == e]

    def fail(self, sig, desc, ent=None):
        if ent is not None and ent in self.aliased:
            sig = "forced-alias-orphan"
        self.fails.append((sig, desc))
        self.stopped = True                 # later steps of this history are consequences

    def observe(self, op, res, registry, gens_before):
        """op tokens, canonical result of the real code, registry of the real daemon after the step"""
        if self.stopped:
            return
        kind = op[0]
        ent = None
        before = dict(self.exp)
        if kind == "R":
            ent = op[1]
            if res == "dead":
                return
            explicit = None
            if op[2] not in "NEX":
                explicit = op[2]
                if explicit[0] == "r":
                    explicit = "g%d" % (int(explicit[1:]) % gens_before) if gens_before else "n0"
            force = op[3] == "1"
            have = self.ids_of(ent)
            taken = explicit is not None and explicit in self.exp
            if res.startswith("uri:"):
                i = res[4:]
                if explicit is not None and i != explicit:
                    return self.fail("register-other-id", "register under %s answered %s" % (explicit, i), ent)
                if not force and (have or taken):
                    weak = any(self.exp[j][1] for j in have)
                    what = ("weak-object" if weak else "object") if have else "id"
                    return self.fail("double-registration-accepted:" + what,
                                     "register(%s, %s) without force was accepted although %s" % (
                                         ent, op[2], "the object is registered as %s" % have if have else "the id is taken"), ent)
                if i == "D":
                    return self.fail("daemon-object-replaced", "register(%s, 'Pyro.Daemon', force=True) was accepted" % ent)
                if any(j != i for j in have):
                    self.aliased.add(ent)
                old = self.exp.get(i)
                self.exp[i] = (ent, op[4] == "1")
                if old and old[0] != ent and not self.ids_of(old[0]):
                    self.how[old[0]] = "displaced"
            # a refusal never changes anything: checked by the state comparison below
        elif kind == "U":
            t = op[1]
            if t[0] in "oc":
                ent = t
                if res == "dead":
                    return
                have = self.ids_of(t)
                if len(have) == 1:
                    del self.exp[have[0]]
                    self.how[t] = "by-obj"
                elif len(have) > 1:
                    # which of the aliases goes is not determined by the property: follow the implementation
                    self.exp = {i: v for i, v in registry.items()}
            elif t not in "NXB":
                i = t
                if i[0] == "r":
                    i = "g%d" % (int(i[1:]) % gens_before) if gens_before else "n0"
                if i != "D" and i in self.exp:
                    e = self.exp.pop(i)[0]
                    if not self.ids_of(e):
                        self.how[e] = "by-id"
        elif kind == "G":
            ent = "o" + op[1]
            if res == "dead":
                return
            have = self.ids_of(ent)
            if any(not self.exp[i][1] for i in have):
                if res != "kept":
                    return self.fail("gc-collected-strong", "object %s is strongly registered but was collected" % ent, ent)
            else:
                for i in have:
                    del self.exp[i]
                self.dead.add(ent)
                self.how[ent] = "gc"
        elif kind == "C":
            i = op[1]
            if i[0] == "r":
                i = "g%d" % (int(i[1:]) % gens_before) if gens_before else "n0"
            want = self.exp.get(i)
            want = "unknown" if want is None else ("inst:" + want[0] if want[0][0] == "c" else "reached:" + want[0])
            if res != want:
                return self.fail("call-wrong-target", "call to %s: expected %s, got %s" % (i, want, res),
                                 self.exp.get(i, (None,))[0])
        elif kind == "L":
            if res != "ids:" + ",".join(sorted(self.exp)):
                return self.fail("registered-mismatch", "registered() = %s, registered ids are %s" % (res, sorted(self.exp)))
        elif kind == "V":
            ent = "o" + op[1]
            if res == "dead":
                return
            have = self.ids_of(ent)
            if have:
                ok = res.startswith("proxy:") and res.endswith(">reached:" + ent) and res[6:].split(">")[0] in have
                if not ok:
                    out = "by-value" if res == "byvalue" else ("error" if res.startswith("err:") else "wrong-proxy")
                    return self.fail("return-registered:" + out, "%s is registered as %s; returned with %s it arrived as %s" % (
                        ent, have, SERS[op[2].lower()], res), ent)
            elif not self.ids_of("c%d" % class_of(int(op[1]))):
                if res != "byvalue":
                    out = "error" if res.startswith("err:") else "proxy"
                    return self.fail("return-unregistered:" + out, "%s is not registered (%s); returned with %s it arrived as %s" % (
                        ent, self.how.get(ent, "never was"), SERS[op[2].lower()], res), ent)
        elif kind in "FP":
            if op[1][0] in "oc":
                ent = op[1]
            if res.startswith(("uri:", "proxy:")) and op[1][0] in "oc":
                i = res.split(":")[1]
                if i not in self.exp:
                    return self.fail("uri-for-unregistered-id", "%s(%s) answered with id %s which is not registered" % (
                        "uriFor" if kind == "F" else "proxyFor", op[1], i), ent)
        # ---- after every step: the daemon's table is exactly the expected map
        if registry != self.exp:
            if registry.get("D") != ("D", False):
                return self.fail("daemon-object-replaced" if "D" in registry else "daemon-object-unregistered",
                                 "after %s the daemon's own entry is %r" % (" ".join(op), registry.get("D")))
            diff = sorted(set(registry.items()) ^ set(self.exp.items()))
            what = {"U": "unregister", "G": "gc", "R": "register", "V": "return-object"}.get(kind, kind)
            detail = ""
            if kind == "U":
                detail = ":not-owner" if (op[1][0] in "oc" and not [i for i, (r, _) in before.items() if r == op[1]]) else ":other"
            if kind == "R":
                detail = ":refused" if res.startswith("err:") else ":accepted"
            if kind == "G":
                detail = ":other-entry" if any(r != ent for _, (r, _) in diff) else ":own-entry"
            self.fail("table-diverged:%s%s" % (what, detail),
                      "after %s the daemon's table differs from the registered map in %r" % (" ".join(op), diff), ent)


# ----------------------------------------------------------------------------------------------------------
# generator
# ----------------------------------------------------------------------------------------------------------
def _gen_history(rng):
    n = rng.choice([3, 5, 8, 12, 16, 20, 25])
    objs = list(range(rng.choice([2, 3, 4, 6])))       # small pools collide more
    if rng.random() < 0.4:
        # objects that cannot carry attributes / whose class derives from a builtin the serializers convert
        objs += rng.sample(range(6, NOBJ), rng.choice([1, 1, 2, 3]))
        if rng.random() < 0.5:
            objs = objs[-4:]
    if rng.random() < 0.12:
        objs = [13, 14] + rng.sample([0, 1, 15], rng.choice([0, 1, 2]))     # base-class object and subclass object together
    nid = rng.choice([1, 2, 4])

    def ent():
        return "c%d" % rng.randrange(REGCLS) if rng.random() < 0.15 else "o%d" % rng.choice(objs)

    def ident():
        r = rng.random()
        if r < 0.10:
            return "D"
        if r < 0.75:
            return "n%d" % rng.randrange(nid)
        return "r%d" % rng.randrange(4)

    def target():
        r = rng.random()
        if r < 0.5:
            return ent()
        if r < 0.93:
            return ident()
        return rng.choice("NXB")

    ops = []
    for _ in range(n):
        r = rng.random()
        if r < 0.36:
            q = rng.random()
            ia = "N" if q < 0.22 else "E" if q < 0.27 else "X" if q < 0.30 else ident()
            ops.append(["R", ent(), ia, "1" if rng.random() < 0.3 else "0", "1" if rng.random() < 0.3 else "0"])
        elif r < 0.55:
            ops.append(["U", target()])
        elif r < 0.60:
            ops.append(["G", str(rng.choice(objs))])
        elif r < 0.65:
            ops.append(["F", target()])
        elif r < 0.70:
            ops.append(["P", target()])
        elif r < 0.82:
            ops.append(["C", ident()])
        elif r < 0.95:
            ops.append(["V", str(rng.choice(objs)), rng.choice("sjmsjmSJM")])
        else:
            ops.append(["L"])
    return ops


def _corpus():
    out = []
    if os.path.isdir(CORPUS):
        for f in sorted(os.listdir(CORPUS)):
            if f.endswith(".json"):
                out.append((f, json.load(open(os.path.join(CORPUS, f)))["ops"]))
    return out


def _run_history(real, ops, ctx=None, verbose=False):
    """run one history on the real daemon; returns (canonical line, Spec)"""
    real.begin_history()
    spec = Spec()
    results = []
    for op in ops:
        gens_before = len(real.gens)
        res = real.step(op)
        results.append(res)
        reg = real.registry()
        spec.observe(op, res, reg, gens_before)
        if verbose:
            print("   %-62s -> %-26s table {%s}" % (describe(op), res, ", ".join("%s: %s%s" % (i, r, " (weak)" if w else "") for i, (r, w) in sorted(reg.items()))))
        if ctx is not None:
            key = "%s:%s" % (op[0], res.split(">")[0].split(":")[0] if op[0] in "VPF" else res.split(",")[0] if op[0] != "L" else "ids")
            if res.startswith("err:"):
                key += ":" + real.last_msg
            ctx.count(key)
    line = ";".join(results) + " | " + real.state_str()
    real.end_history()
    return line, spec


def _run(ctx, name, n, do_model):
    try:
        cfg = "".join("1" if x else "0" for x in _facts()["cfg"])
    except Exception as x:       # source shape not recognised (already reported by step A): compare with the repaired model
        cfg = "11111"
        ctx.notes.append("C16: extractor failed (%r); correspondence run uses Cfg.fixed" % (x,))
    rng = ctx.sub_rng(name)
    cases = [{"name": fn, "ops": ops} for fn, ops in _corpus()] if name == "corr" else []
    real = Real()
    try:
        done = 0
        while done < n or cases:
            while len(cases) < 20000 and done < n:
                cases.append({"name": None, "ops": _gen_history(rng)})
                done += 1
            _run_chunk(ctx, real, cfg, cases, do_model)
            cases = []
    finally:
        real.close()


def _run_chunk(ctx, real, cfg, cases, do_model):
    lines, reals = [], []
    for c in cases:
        ops = c["ops"]
        line, spec = _run_history(real, ops, ctx)
        ctx.evaluations += 1
        accepted = sum(1 for r in line.split(" | ")[0].split(";") if r.startswith("uri:"))
        if accepted >= 2 and (">reached:o" in line or ";reached:o" in line or ";inst:" in line):
            ctx.nontriv(json.dumps(ops))
        for sig, desc in spec.fails:
            ctx.fail(sig, desc + "  [history: " + "; ".join(describe(o) for o in ops) + "]",
                     {"ops": ops, "source": c["name"] or "generated", "cfg": cfg})
        if len(ctx.samples) < 4 and 4 < len(ops) <= 8 and accepted >= 2:
            ctx.sample({"ops": [describe(o) for o in ops], "real": line})
        reals.append(line)
        lines.append("h %s %d %d %d %s" % (cfg, NOBJ, NCLS, len(ops), " ".join(" ".join(o) for o in ops)))
    if do_model:
        outs = common.run_driver("drv_c16", lines)
        ctx.corr_cases += len(lines)
        for c, l, r, m in zip(cases, lines, reals, outs):
            if r != _canon_model(m):
                ctx.mismatch("history", {"line": l, "ops": c["ops"], "source": c["name"] or "generated"}, r, _canon_model(m))
            if not m.endswith(" | src=ok") and m != "bad-op":
                # the source transcription (Pyro.Gen.C16Src), evaluated by the driver next to the model, disagrees with it
                ctx.mismatch("transcription", {"line": l, "ops": c["ops"], "source": c["name"] or "generated"},
                             "src=ok", m.rsplit(" | ", 1)[-1])


def correspondence(ctx):
    _run(ctx, "corr", ctx.n(12000, 300000), True)


def oracle(ctx):
    # step D runs inside _run on the same histories; in search mode it runs again on fresh ones
    if ctx.search_mode:
        _run(ctx, "search", ctx.n(10000, 100000), False)


def replay(ctx, case):
    f = case.get("failing_input") or {}
    c = f.get("case") or (case if "ops" in case else None)
    if not c:
        print("replay file names no failing input:", case.get("no_longer_checks"))
        return 1
    real = Real()
    try:
        print("history on a real Daemon (%s):" % common.REPO)
        line, spec = _run_history(real, c["ops"], verbose=True)
    finally:
        real.close()
    for sig, desc in spec.fails:
        print("property violated [%s]: %s" % (sig, desc))
    print("VIOLATION reproduced" if spec.fails else "not reproduced")
    return 1 if spec.fails else 0
