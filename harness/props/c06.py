"""C06 — wire messages decode to exactly what was encoded; nothing else decodes."""
import ast
import json
import os
import random
import struct
import uuid
import zlib

import common
import fakes
from common import hx, cps

ID = "C06"
LEAN_MODEL_TARGETS = ["drv_c06"]
LEAN_PROOF_TARGETS = ["PyroProps.C06", "PyroProps.C06Ast", "PyroProps.C06EncAst", "PyroProps.C06Src"]
AUDIT_FILES = ["PyroModel/Bytes.lean", "PyroModel/Wire.lean", "PyroModel/SockIO.lean", "PyroModel/Gen/C06.lean", "PyroProofs/Wire.lean",
               "PyroProofs/WireStages.lean", "PyroProofs/WireReencode.lean", "PyroProps/C17.lean",
               "PyroProps/C06.lean", "PyroModel/PyIR.lean", "PyroModel/C06AstRun.lean", "PyroProps/C06Ast.lean", "PyroProps/C06EncAst.lean",
               "PyroModel/C06Glue.lean", "PyroProps/C06Src.lean"]
THEOREMS = ["Pyro.C06.C06_roundtrip", "Pyro.C06.C06_sender_limit", "Pyro.C06.C06_receiver_limit",
            "Pyro.C06.C06_accepts_only_wellformed", "Pyro.C06.C06_reencode", "Pyro.C06.C06_fragmentation",
            "Pyro.C06.C06_gen_facts", "Pyro.C06.C06_gen_conditions",
            # ReceivingMessage.add_payload transcribed from the source on every run (py2ir.py) = the model, for all inputs
            "Pyro.C06Ast.addPayload_translated", "Pyro.C06Ast.C06_source_accepts_tiled", "Pyro.C06Ast.C06_source_outcomes",
            # ... and so are ReceivingMessage.__init__ (header parsing, incl. the receiver-side size limit) and validate
            "Pyro.C06Ast.init_translated", "Pyro.C06Ast.validate_translated",
            # ... and assembled the way recv_stub calls them they are the model's recvStub; "accepts only well-formed" transferred
            "Pyro.C06Ast.C06_source_recvStub", "Pyro.C06Ast.C06_source_accepts_only_wellformed",
            # SendingMessage.__init__ transcribed from the source on every run = the model's encode, for all messages; the round
            # trip and the sender's size limit stated about the two transcriptions
            "Pyro.C06EncAst.sendInit_translated", "Pyro.C06EncAst.C06_source_send_outcomes", "Pyro.C06EncAst.C06_source_sender_limit",
            "Pyro.C06EncAst.C06_source_roundtrip",
            # recv_stub itself transcribed on every run (shallow: harness/props/c06_tr.py) = the model's recvStub for every stream; with
            # the three transcribed collaborators: the source's whole decode path, and the property restated about it
            "Pyro.C06Src.C06_recv_stub_translated", "Pyro.C06Src.C06_source_recv_stub",
            "Pyro.C06Src.C06_source_decoder_accepts_only_wellformed", "Pyro.C06Src.C06_source_decoder_receiver_limit",
            "Pyro.C06Src.C06_source_decoder_roundtrip",
            # stronger statements: acceptance depends on the consumed bytes alone (any continuation), k back-to-back messages
            "Pyro.C06Src.C06_accept_independent_of_rest", "Pyro.C06Src.C06_source_decoder_independent_of_rest",
            "Pyro.C06Src.C06_roundtrip_sequence"]
SUITES = ["encode", "decode"]
RULE = ("messages generated field by field (boundary values of every 8/16/32-bit field, payload sizes swept across the "
        "100-byte compression threshold, 0-4 annotations incl. zero-length / memoryview / bytearray values, correlation id "
        "on/off, MAX_MESSAGE_SIZE around the message size) plus structure-aware mutations of encoder output and raw "
        "garbage fed to the decoder; a case is non-trivial when the real codec accepted it (encoded / decoded without "
        "error) or failed past the header stage; distinct = distinct canonical input line")
ASSUMPTIONS = ["zlib.decompress(zlib.compress(p, 4)) == p", "python runs without -O (the annotation tiling check is an assert)",
               "connection.recv(n) returns exactly n bytes or raises (property C17)"]
TRUSTED = ["FakeConn (exact-n-or-raise byte source) stands for SocketConnection.recv",
           "harness/py2ir.py + lean/PyroModel/PyIR.lean as the meaning of the Python fragment add_payload is written in (slices clamp, "
           "int.from_bytes, bytes.decode('ascii'), dict item assignment, assert, x &= ~c on non-negative ints); exercised on every "
           "run: the driver runs the interpreter on the transcription next to the model for every decode line that reaches add_payload"]


def extract():
    common.repo_on_path()
    from Pyro5 import protocol
    src = open(protocol.__file__).read()
    tree = ast.parse(src)
    # literal threshold in `config.COMPRESSION and len(payload) > 100`
    init = [n for c in tree.body if isinstance(c, ast.ClassDef) and c.name == "SendingMessage"
            for n in c.body if isinstance(n, ast.FunctionDef) and n.name == "__init__"][0]
    thresholds = []
    for node in ast.walk(init):
        if isinstance(node, ast.Compare) and isinstance(node.left, ast.Call) and getattr(node.left.func, "id", "") == "len" \
                and len(node.comparators) == 1 and isinstance(node.comparators[0], ast.Constant):
            thresholds.append((type(node.ops[0]).__name__, node.comparators[0].value))
    levels = []
    for node in ast.walk(init):
        if isinstance(node, ast.Call) and isinstance(node.func, ast.Attribute) and node.func.attr == "compress":
            for a in node.args[1:]:
                if isinstance(a, ast.Constant):
                    levels.append(a.value)
    thr = ["%s %d" % t for t in thresholds]
    # which annotation-key lengths the sender accepts (probed on the real constructor: robust against moving the test around)
    accepted_lens = []
    for n in range(0, 9):
        try:
            protocol.SendingMessage(protocol.MSG_PING, 0, 0, 1, b"", annotations={"K" * n: b"v"})
            accepted_lens.append(n)
        except Exception:
            pass
    conds = translate_conditions(protocol, tree)
    # ReceivingMessage.add_payload itself, transcribed statement by statement into the PyIR deep embedding
    import py2ir
    tr = py2ir.Tr(protocol)
    add_payload_ast = py2ir.wrap(tr.function("add_payload", ["self", "payload"], owner=protocol.ReceivingMessage))
    # ... and ReceivingMessage.__init__ (header parsing; the call of add_payload for a given payload is left opaque: recv_stub
    # passes none) and the static pre-check ReceivingMessage.validate
    init_ast = py2ir.wrap(tr.function("__init__", ["self", "header", "payload"], owner=protocol.ReceivingMessage, lenient=True))
    validate_ast = py2ir.wrap(tr.function("validate", ["data"], owner=protocol.ReceivingMessage))
    # ... and the sender: SendingMessage.__init__ (the branch for memoryview annotation values is left opaque: the model's
    # annotation values are bytes objects)
    send_init_ast = py2ir.wrap(tr.function("__init__", ["self", "msgtype", "flags", "seq", "serializer_id", "payload", "annotations"],
                                           owner=protocol.SendingMessage, lenient=True))
    # ... and recv_stub itself, by the shallow translator of this property (harness/props/c06_tr.py): a Lean definition over the
    # model's own types whose collaborators are parameters
    from props import c06_tr
    try:
        recv_stub_src = c06_tr.recv_stub_lean(protocol)
    except c06_tr.Untranslatable as x:
        raise ValueError("recv_stub is outside the fragment of harness/props/c06_tr.py: Untranslatable(%s)" % x)
    return f"""-- GENERATED by harness/props/c06.py from Pyro5/protocol.py — do not edit
import PyroModel.PyIR
import PyroModel.C06Glue
namespace Pyro.Gen.C06
open Pyro.PyIR in
/-- `ReceivingMessage.add_payload(self, payload)` as it is written now (harness/py2ir.py, one node per Python AST node) -/
def addPayloadSrc : Pyro.PyIR.Stmt :=
  {add_payload_ast}
open Pyro.PyIR in
/-- `ReceivingMessage.__init__(self, header, payload=None)` as it is written now -/
def initSrc : Pyro.PyIR.Stmt :=
  {init_ast}
open Pyro.PyIR in
/-- `ReceivingMessage.validate(data)` as it is written now -/
def validateSrc : Pyro.PyIR.Stmt :=
  {validate_ast}
open Pyro.PyIR in
/-- `SendingMessage.__init__(self, msgtype, flags, seq, serializer_id, payload, annotations)` as it is written now -/
def sendInitSrc : Pyro.PyIR.Stmt :=
  {send_init_ast}
def headerFormat : String := {json.dumps(protocol._header_format)}
def headerSize : Nat := {protocol._header_size}
def protocolVersion : Nat := {protocol.PROTOCOL_VERSION}
def magicNumber : Nat := {protocol._magic_number}
def flagsCompressed : Nat := {protocol.FLAGS_COMPRESSED}
def flagsCorrId : Nat := {protocol.FLAGS_CORR_ID}
def msgTypes : List Nat := {[protocol.MSG_CONNECT, protocol.MSG_CONNECTOK, protocol.MSG_CONNECTFAIL, protocol.MSG_INVOKE, protocol.MSG_RESULT, protocol.MSG_PING]}
/-- comparisons of len(..) with an integer literal in SendingMessage.__init__ -/
def lenComparisons : List String := {json.dumps(thr)}
/-- lengths n in 0..8 for which SendingMessage accepts the annotation key "K"*n (probed on the real constructor) -/
def acceptedKeyLengths : List Nat := {accepted_lens}
def compressLevels : List Nat := {levels}
{conds}
{recv_stub_src}
end Pyro.Gen.C06
"""


def translate_conditions(protocol, tree):
    """the three size / compression decisions of the codec, translated expression by expression into Lean
    (atoms: len(payload) -> payloadLen, config.COMPRESSION -> compression, config.MAX_MESSAGE_SIZE -> maxSize, ...)"""
    ATOMS = {"len(payload)": "payloadLen", "config.COMPRESSION": "compression", "config.MAX_MESSAGE_SIZE": "maxSize",
             "total_size": "totalSize", "self.data_size": "dataSize", "self.annotations_size": "annSize"}

    def tr(e, atoms=None, local_defs=None):
        atoms = ATOMS if atoms is None else atoms
        txt = ast.unparse(e)
        if txt in atoms:
            return atoms[txt]
        if isinstance(e, ast.Name) and local_defs and e.id in local_defs:
            return tr(local_defs[e.id], atoms, local_defs)         # a local that names a sub-expression: inline it
        if isinstance(e, ast.BoolOp):
            return "(" + (" && " if isinstance(e.op, ast.And) else " || ").join(tr(v, atoms, local_defs) for v in e.values) + ")"
        if isinstance(e, ast.Compare) and len(e.ops) == 1:
            sym = {ast.Gt: ">", ast.GtE: "≥", ast.Lt: "<", ast.LtE: "≤", ast.Eq: "=", ast.NotEq: "≠"}[type(e.ops[0])]
            return "(decide (%s %s %s))" % (tr(e.left, atoms, local_defs), sym, tr(e.comparators[0], atoms, local_defs))
        if isinstance(e, ast.BinOp) and isinstance(e.op, ast.Add):
            return "(%s + %s)" % (tr(e.left, atoms, local_defs), tr(e.right, atoms, local_defs))
        if isinstance(e, ast.Constant) and isinstance(e.value, int):
            return str(e.value)
        if isinstance(e, ast.Name) and type(getattr(protocol, e.id, None)) is int:
            return str(getattr(protocol, e.id))                # a module-level constant naming the number
        raise ValueError("condition not in the translatable subset: " + txt)

    def cls_fn(cname, fname):
        c = [n for n in tree.body if isinstance(n, ast.ClassDef) and n.name == cname][0]
        return [n for n in c.body if isinstance(n, ast.FunctionDef) and n.name == fname][0]
    send = cls_fn("SendingMessage", "__init__")
    recv = cls_fn("ReceivingMessage", "__init__")
    comp = [n for n in ast.walk(send) if isinstance(n, ast.If) and "zlib.compress" in ast.unparse(n.body)]
    too_large_s = [n for n in ast.walk(send) if isinstance(n, ast.If) and "message too large" in ast.unparse(n.body)]
    too_large_r = [n for n in ast.walk(recv) if isinstance(n, ast.If) and "message too large" in ast.unparse(n.body)]
    if not (len(comp) == len(too_large_s) == len(too_large_r) == 1):
        raise ValueError("codec conditions not found (compress %d, sender limit %d, receiver limit %d)"
                         % (len(comp), len(too_large_s), len(too_large_r)))
    # order of the sender's statements: the limit is checked AFTER the compression step (on the wire size)
    order_ok = comp[0].lineno < too_large_s[0].lineno
    # the receiver's condition may go through locals that merely name a sub-expression (assigned once, before the test)
    ATOMS_R = {"config.MAX_MESSAGE_SIZE": "maxSize", "self.data_size": "dataSize", "self.annotations_size": "annSize"}
    assigned = {}
    for n in ast.walk(recv):
        if isinstance(n, ast.Assign) and len(n.targets) == 1 and isinstance(n.targets[0], ast.Name):
            assigned.setdefault(n.targets[0].id, []).append(n)
    local_defs = {k: v[0].value for k, v in assigned.items() if len(v) == 1 and v[0].lineno < too_large_r[0].lineno}
    recv_cond = tr(too_large_r[0].test, ATOMS_R, local_defs)
    return ("/-- `if <cond>:` guarding zlib.compress in SendingMessage.__init__, translated -/\n"
            "def compressCond (compression : Bool) (payloadLen : Nat) : Bool := %s\n"
            "/-- the sender's refusal condition (total_size = len(payload as sent) + annotations_size), translated -/\n"
            "def senderRefuses (totalSize maxSize : Nat) : Bool := %s\n"
            "/-- the receiver's refusal condition on the header fields, translated -/\n"
            "def receiverRefuses (dataSize annSize maxSize : Nat) : Bool := %s\n"
            "/-- the sender checks the limit after the compression step -/\n"
            "def senderLimitAfterCompression : Bool := %s\n"
            % (tr(comp[0].test), tr(too_large_s[0].test), recv_cond, "true" if order_ok else "false"))


# ------------------------------------------------------------------------------------------
class FakeConn:
    """connection.recv(n): exactly n bytes or ConnectionClosedError; counts what was requested"""

    def __init__(self, stream, errors):
        self.stream = bytes(stream)
        self.pos = 0
        self.requested = 0
        self.errors = errors

    def recv(self, n):
        self.requested += n
        if len(self.stream) - self.pos < n:
            self.pos = len(self.stream)
            raise self.errors.ConnectionClosedError("receiving: not enough data")
        b = self.stream[self.pos:self.pos + n]
        self.pos += n
        return b


KEYPOOL = ["HMAC", "CORR", "ABCD", "abcd", "X   ", "0000", "~~~~", "ZZZZ", "Pyro", "key1"]
BADKEYS = ["ABC", "ABCDE", "", "ABéD", "éééé", "ABCD€"]


def gen_msg(rng):
    r = rng.random
    type_ = rng.choice([1, 2, 3, 4, 5, 6, 0, 7, 255, 256] if r() < 0.3 else [1, 2, 3, 4, 5, 6])
    ser = rng.choice([1, 2, 3, 4, 0, 42, 255, 256] if r() < 0.3 else [1, 2, 3, 4])
    flags = rng.choice([0, 1, 2, 4, 8, 16, 32, 64, 66, 2 | 8, 127, 128, 65535, 65535 - 2, 65536, 65536 + 2, rng.randint(0, 65535)])
    seq = rng.choice([0, 1, 2, 65534, 65535, 65536, rng.randint(0, 65535)] if r() < 0.5 else [rng.randint(0, 65535)])
    mode = r()
    if mode < 0.15:
        n = 0
    elif mode < 0.45:
        n = rng.randint(1, 40)
    elif mode < 0.85:
        n = rng.randint(90, 112)
    else:
        n = rng.randint(113, 3000)
    if r() < 0.5:
        payload = bytes(rng.choice(b"ab \n") for _ in range(n))
    else:
        payload = rng.randbytes(n)
    nann = rng.choice([0, 0, 0, 1, 1, 2, 3, 4])
    keys = rng.sample(KEYPOOL, nann)
    if nann and r() < 0.1:
        keys[rng.randrange(nann)] = rng.choice(BADKEYS)
    anns = []
    for k in keys:
        vlen = rng.choice([0, 0, 1, 4, 8, 9, rng.randint(0, 60)])
        v = rng.randbytes(vlen)
        anns.append([k, v, rng.choice(["bytes", "bytes", "bytearray", "memoryview"])])
    corr = rng.choice([rng.randbytes(16), rng.randbytes(16), b"\0" * 16, b"\xff" * 16, b"\0" * 15 + b"\x01"]) if r() < 0.35 else None
    comp = r() < 0.5
    return dict(type=type_, ser=ser, flags=flags, seq=seq, payload=payload, anns=anns, corr=corr, comp=comp)


def wire_total(m):
    p = zlib.compress(m["payload"], 4) if (m["comp"] and len(m["payload"]) > 100) else m["payload"]
    return len(p) + sum(8 + len(a[1]) for a in m["anns"])


def real_encode(m, maxsize):
    from Pyro5 import protocol, config, errors
    from Pyro5.callcontext import current_context
    old = (config.COMPRESSION, config.MAX_MESSAGE_SIZE, current_context.correlation_id)
    config.COMPRESSION = m["comp"]
    config.MAX_MESSAGE_SIZE = maxsize
    current_context.correlation_id = uuid.UUID(bytes=m["corr"]) if m["corr"] is not None else None
    try:
        anns = {}
        for k, v, kind in m["anns"]:
            anns[k] = {"bytes": bytes, "bytearray": bytearray, "memoryview": memoryview}[kind](v)
        try:
            msg = protocol.SendingMessage(m["type"], m["flags"], m["seq"], m["ser"], m["payload"], anns)
            return "ok " + hx(msg.data), msg
        except errors.ProtocolError as x:
            s = str(x)
            if s.startswith("message too large"):
                return "err tooLarge", None
            if s.startswith("annotation identifier"):
                return "err badKeyLen", None
            return "err protocol:" + s[:40], None
        except struct.error:
            return "err structRange", None
        except UnicodeEncodeError:
            return "err nonAscii", None
        except Exception as x:
            return "err other:" + type(x).__name__, None
    finally:
        config.COMPRESSION, config.MAX_MESSAGE_SIZE, current_context.correlation_id = old


def enc_line(m, maxsize):
    z = zlib.compress(m["payload"], 4)
    parts = ["enc", "1" if m["comp"] else "0", str(maxsize), str(m["type"]), str(m["ser"]), str(m["flags"]), str(m["seq"]),
             hx(m["payload"]), hx(z), hx(m["corr"]) if m["corr"] is not None else "none", str(len(m["anns"]))]
    for k, v, _ in m["anns"]:
        parts += [cps(k), hx(v)]
    return " ".join(parts)


class Hang(BaseException):
    pass


class Watchdog:
    """the decoder is pure computation over bytes already in memory: if it has not come back after `seconds`, it loops"""

    def __init__(self, seconds):
        self.seconds = seconds

    def __enter__(self):
        import signal
        import threading
        self.armed = threading.current_thread() is threading.main_thread()
        if self.armed:
            def fire(signum, frame):
                raise Hang()
            import time
            self.t0 = time.time()
            self.old = signal.signal(signal.SIGALRM, fire)
            self.outer = signal.setitimer(signal.ITIMER_REAL, self.seconds)[0]     # the runner's own deadline, if armed

    def __exit__(self, *a):
        import signal
        import time
        if self.armed:
            signal.setitimer(signal.ITIMER_REAL, 0)
            signal.signal(signal.SIGALRM, self.old)
            if self.outer > 0:
                signal.setitimer(signal.ITIMER_REAL, max(0.01, self.outer - (time.time() - self.t0)))
        return False


def real_decode(stream, accepted, maxsize):
    from Pyro5 import protocol, config, errors
    old = config.MAX_MESSAGE_SIZE
    config.MAX_MESSAGE_SIZE = maxsize
    conn = FakeConn(stream, errors)
    try:
        try:
            with Watchdog(30):
                msg = protocol.recv_stub(conn, accepted or None)
            anns = list(msg.annotations.items())
            s = "ok %d %d %d %d %s %s %d " % (msg.type, msg.serializer_id, msg.flags, msg.seq, hx(msg.data), hx(msg.corr_id), len(anns))
            if anns:
                s += " ".join("%s %s" % (cps(k), hx(v)) for k, v in anns) + " "
            return s + "%d %d" % (conn.requested, len(stream) - conn.pos), msg, conn
        except errors.ConnectionClosedError:
            kind = "closed"
        except errors.ProtocolError as x:
            kind = "badType" if str(x).startswith("invalid msg type") else "protocol"
        except AssertionError:
            kind = "assertion"
        except UnicodeDecodeError:
            kind = "nonAsciiId"
        except zlib.error:
            kind = "zlib"
        except Hang:
            kind = "hang"
        except Exception as x:
            kind = "other:" + type(x).__name__
        return "err %s %d %d" % (kind, conn.requested, len(stream) - conn.pos), None, conn
    finally:
        config.MAX_MESSAGE_SIZE = old


def dec_line(stream, accepted, maxsize):
    zin, zout = b"", "!"
    if len(stream) >= 40:
        dsz = int.from_bytes(stream[12:16], "big")
        asz = int.from_bytes(stream[16:20], "big")
        zin = stream[40 + asz:40 + asz + dsz]
        try:
            zout = hx(zlib.decompress(zin))
        except zlib.error:
            zout = "!"
    acc = ",".join(str(a) for a in accepted) if accepted else "-"
    return "dec %d %s %s %s %s" % (maxsize, acc, hx(stream), hx(zin), zout)


def mutate(rng, data):
    """structure-aware mutation of an encoded message"""
    b = bytearray(data)
    choice = rng.random()
    FIELDS = [(0, 4), (4, 2), (6, 1), (7, 1), (8, 2), (10, 2), (12, 4), (16, 4), (20, 16), (36, 2), (38, 2)]
    if choice < 0.35 and len(b) >= 40:
        off, w = rng.choice(FIELDS)
        cur = int.from_bytes(b[off:off + w], "big")
        val = rng.choice([0, 1, (1 << (8 * w)) - 1, (1 << (8 * w)) - 2, cur + 1, max(cur - 1, 0), cur ^ 2, cur + 8, max(cur - 8, 0), rng.randrange(1 << (8 * w))])
        b[off:off + w] = (val % (1 << (8 * w))).to_bytes(w, "big")
    elif choice < 0.5:
        cut = rng.randrange(len(b) + 1)
        del b[cut:]
    elif choice < 0.7 and len(b) > 48:
        # poke inside the annotation area / body
        i = rng.randrange(40, len(b))
        b[i] = rng.randrange(256)
        if rng.random() < 0.5 and len(b) >= 48:
            # a chunk length field
            i = 44
            asz = int.from_bytes(b[16:20], "big")
            b[i:i + 4] = rng.choice([0, 1, 5, 2 ** 32 - 1, len(b), 2 ** 31, 2 ** 31 - 1, 2 ** 32 - 8, 2 ** 32 - 16, 2 ** 32 - 24,
                                     (2 ** 32 - asz) % 2 ** 32, (2 ** 32 - asz + 8) % 2 ** 32, max(0, asz - 8)]).to_bytes(4, "big")
    elif choice < 0.8:
        i = rng.randrange(len(b)) if b else 0
        b[i:i] = rng.randbytes(rng.randint(1, 9))
    elif choice < 0.9 and len(b) >= 40:
        # make the length fields disagree with what follows, keeping the rest
        dsz = int.from_bytes(b[12:16], "big")
        asz = int.from_bytes(b[16:20], "big")
        d = rng.choice([-8, -1, 1, 8])
        if rng.random() < 0.5:
            b[12:16] = min(2 ** 32 - 1, max(0, dsz + d)).to_bytes(4, "big")
            if rng.random() < 0.5:
                b[16:20] = min(2 ** 32 - 1, max(0, asz - d)).to_bytes(4, "big")   # total unchanged, split moved
        else:
            b[16:20] = min(2 ** 32 - 1, max(0, asz + d)).to_bytes(4, "big")
    else:
        b = bytearray(rng.randbytes(rng.choice([0, 3, 5, 6, 39, 40, 41, 60])))
        if rng.random() < 0.5:
            b[0:6] = b"PYRO\x01\xf6"[:max(0, len(b))][:6] if len(b) >= 6 else b[0:6]
    return bytes(b)


# annotation chunk ids that are the ascii encoding of no 4-character string: bytes >= 0x80 arranged as valid UTF-8 sequences of
# 2 / 3 / 4 bytes (alone, padded with ascii on either side, several in a row), as invalid UTF-8 (lone continuation bytes, truncated
# lead bytes, overlong forms, surrogates, 0xfe / 0xff), as latin-1 / cp1252 text; and ids that ARE ascii but unusual (NUL, DEL, blanks)
NONASCII_IDS = [
    b"\xc3\xa9ab", b"a\xc3\xa9b", b"ab\xc3\xa9", b"\xc3\xa9\xc3\xa9", b"\xc2\x80\xdf\xbf", b"\xc2\xa0AB",
    b"\xe2\x82\xacA", b"A\xe2\x82\xac", b"\xe0\xa0\x80Z", b"\xef\xbf\xbfZ", b"\xef\xbb\xbfA",
    b"\xf0\x9f\x98\x80", b"\xf0\x90\x80\x80", b"\xf4\x8f\xbf\xbf",
    b"\x80ABC", b"ABC\x80", b"AB\xc3C", b"ABC\xc3", b"\xc0\x80AB", b"\xc1\xbfAB", b"\xe0\x80\x80A", b"\xed\xa0\x80A", b"\xed\xbf\xbfA",
    b"\xf4\x90\x80\x80", b"\xf5\x80\x80\x80", b"\xf8\x88\x80\x80", b"\xff\xfeAB", b"\xfe\xffAB", b"\xff\xff\xff\xff", b"\x80\x80\x80\x80",
    b"\xe9ABC", b"caf\xe9", b"\x93AB\x94", b"\xa4\xa4\xa4\xa4",
]
ODD_ASCII_IDS = [b"\0\0\0\0", b"A\0BC", b"\x7f\x7f\x7f\x7f", b"    ", b"\r\n\t ", b"ABC\x7f", b"\x1b[0m"]


def _chunk_offsets(b):
    """offsets (in the whole message) of the annotation chunks of a well-formed message; [] if the area is not tiled"""
    if len(b) < 40:
        return []
    asz = int.from_bytes(b[16:20], "big")
    offs, i = [], 0
    while i < asz:
        if 40 + i + 8 > len(b):
            return []
        offs.append(40 + i)
        i += 8 + int.from_bytes(b[40 + i + 4:40 + i + 8], "big")
    return offs if i == asz else []


def mutate_ids(rng, data):
    """structure-aware mutation of the annotation chunk IDS of an encoded message (everything else stays well formed, so the
    decoder's verdict depends on the id bytes alone); a message without annotations gets a chunk first"""
    b = bytearray(data)
    if len(b) < 40:
        return bytes(b)
    offs = _chunk_offsets(b)
    if not offs or rng.random() < 0.15:
        # insert a chunk (in front, in the middle or at the end of the annotation area), header adjusted
        asz = int.from_bytes(b[16:20], "big")
        if asz + 80 >= 2 ** 32:
            return bytes(b)
        v = rng.randbytes(rng.choice([0, 0, 1, 5]))
        at = rng.choice(offs + [40 + asz]) if offs else 40
        chunk = b"QQQQ" + len(v).to_bytes(4, "big") + v
        b[at:at] = chunk
        b[16:20] = (asz + len(chunk)).to_bytes(4, "big")
        offs = _chunk_offsets(b)
    r = rng.random()
    for off in (offs if rng.random() < 0.15 else [rng.choice(offs)]):
        if r < 0.6:
            new = rng.choice(NONASCII_IDS)
        elif r < 0.7:
            new = rng.choice(ODD_ASCII_IDS)
        elif r < 0.85:
            # one or two bytes of the id get their high bit set / become a random byte >= 0x80
            new = bytearray(b[off:off + 4])
            for _ in range(rng.choice([1, 1, 2])):
                j = rng.randrange(4)
                new[j] = (new[j] | 0x80) if rng.random() < 0.5 else rng.randrange(0x80, 0x100)
            new = bytes(new)
        else:
            new = rng.randbytes(4)
        b[off:off + 4] = new
    return bytes(b)


def _corpus():
    d = os.path.join(common.VERIF, "corpus", "C06")
    out = []
    if os.path.isdir(d):
        for f in sorted(os.listdir(d)):
            out.append(json.load(open(os.path.join(d, f))))
    return out


def _encode_suite(ctx, name, n, do_model):
    rng = ctx.sub_rng(name)
    lines, reals, metas = [], [], []
    for i in range(n):
        m = gen_msg(rng)
        total = wire_total(m)
        maxsize = rng.choice([total - 1, total, total + 1, 0, 10 ** 9, 10 ** 9, 10 ** 9]) if rng.random() < 0.4 else 10 ** 9
        maxsize = max(0, maxsize)
        real, msg = real_encode(m, maxsize)
        ctx.evaluations += 1
        ctx.count("enc:" + real.split(" ")[0 if real.startswith("ok") else 1])
        lines.append(enc_line(m, maxsize))
        reals.append(real)
        metas.append((m, maxsize))
        if real.startswith("ok"):
            ctx.nontriv(lines[-1])
            # ---- D: round trip through the real decoder, with a trailing stream, any accepted filter
            data = bytes(msg.data)
            rest = rng.randbytes(rng.choice([0, 0, 1, 7, 40]))
            accepted = rng.choice([[], [m["type"]], [m["type"], 99], [1, 2, 3, 4, 5, 6, 0, 7, 255]])
            out, rmsg, conn = real_decode(data + rest, accepted, maxsize)
            case = {"msg": common.jsonable(m), "maxsize": maxsize, "rest": rest.hex(), "accepted": accepted}
            if rmsg is None:
                ctx.fail("roundtrip-rejected", "a message the sender built is rejected by the receiver: %s" % out, case)
            else:
                exp_flags = (m["flags"] & ~2) | (64 if m["corr"] is not None else 0)
                got = (rmsg.type, rmsg.serializer_id, rmsg.flags, rmsg.seq, bytes(rmsg.data),
                       [(k, bytes(v)) for k, v in rmsg.annotations.items()], bytes(rmsg.corr_id))
                exp = (m["type"], m["ser"], exp_flags, m["seq"], m["payload"], [(k, v) for k, v, _ in m["anns"]],
                       m["corr"] if m["corr"] is not None else b"\0" * 16)
                if got != exp:
                    ctx.fail("roundtrip-differs", "decoded message differs from the encoded one: got %r expected %r" % (got, exp), case)
                if conn.pos != len(data) or conn.requested != len(data):
                    ctx.fail("roundtrip-consumed", "receiver consumed %d / requested %d bytes of a %d-byte message" % (conn.pos, conn.requested, len(data)), case)
            if total > maxsize:
                ctx.fail("sender-limit", "sender built a message of %d bytes with MAX_MESSAGE_SIZE=%d" % (total, maxsize), case)
        elif real == "err tooLarge" and total <= maxsize:
            ctx.fail("sender-limit", "sender refused a message of %d bytes with MAX_MESSAGE_SIZE=%d" % (total, maxsize),
                     {"msg": common.jsonable(m), "maxsize": maxsize})
        if len(ctx.samples) < 3 and real.startswith("ok") and m["anns"] and len(m["payload"]) < 30:
            ctx.sample({"encode": lines[-1], "real": real})
    if do_model:
        outs = common.run_driver("drv_c06", lines)
        ctx.corr_cases += len(lines)
        for l, r, o, meta in zip(lines, reals, outs, metas):
            if r != o:
                ctx.mismatch("encode", {"line": l[:800], "msg": common.jsonable(meta[0]), "maxsize": meta[1]}, r[:300], o[:300])
    return metas


def _decode_suite(ctx, name, n, do_model):
    rng = ctx.sub_rng(name)
    lines, reals = [], []
    for i in range(n):
        m = gen_msg(rng)
        # keep the base message encodable most of the time
        if rng.random() < 0.9:
            m["type"] %= 256; m["ser"] %= 256; m["flags"] %= 65536; m["seq"] %= 65536
            m["anns"] = [a for a in m["anns"] if len(a[0]) == 4 and a[0].isascii()]
        real, msg = real_encode(m, 10 ** 9)
        if msg is None:
            stream = rng.randbytes(rng.choice([0, 5, 6, 40, 50]))
        else:
            stream = bytes(msg.data)
            r = rng.random()
            if r < 0.25:
                pass
            elif r < 0.72:
                stream = mutate(rng, stream)
                if rng.random() < 0.2:
                    stream = mutate(rng, stream)
            elif r < 0.85:
                stream = mutate_ids(rng, stream)
                ctx.count("dec-gen:ids")
            else:
                # duplicate annotation key: append a second chunk with an existing key (later one wins)
                if m["anns"]:
                    k = m["anns"][0][0]
                    v = rng.randbytes(rng.randint(0, 6))
                    extra = k.encode("ascii") + len(v).to_bytes(4, "big") + v
                    b = bytearray(stream)
                    asz = int.from_bytes(b[16:20], "big")
                    b[16:20] = (asz + len(extra)).to_bytes(4, "big")
                    b[40 + asz:40 + asz] = extra
                    stream = bytes(b)
            stream += rng.randbytes(rng.choice([0, 0, 0, 3, 50]))
        total = (int.from_bytes(stream[12:16], "big") + int.from_bytes(stream[16:20], "big")) if len(stream) >= 40 else 0
        maxsize = rng.choice([10 ** 9, 10 ** 9, total, max(0, total - 1), total + 1])
        accepted = rng.choice([[], [], [4], [5], [1, 2, 3], [4, 6], [m["type"] % 256]])
        out, rmsg, conn = real_decode(stream, accepted, maxsize)
        ctx.evaluations += 1
        tag = out.split(" ")[0] if out.startswith("ok") else out.split(" ")[1]
        ctx.count("dec:" + tag)
        lines.append(dec_line(stream, accepted, maxsize))
        reals.append(out)
        case = {"stream": stream.hex(), "accepted": accepted, "maxsize": maxsize}
        if rmsg is not None or tag in ("assertion", "zlib", "nonAsciiId", "badType"):
            ctx.nontriv(lines[-1])
        # ---- D: receiver-side limit: refused before any of the body is read
        if len(stream) >= 40 and stream[:6] == b"PYRO\x01\xf6" and stream[38:40] == b"\x4d\xc5" and total > maxsize:
            if rmsg is not None or conn.requested != 40:
                ctx.fail("receiver-limit", "message declaring %d bytes with MAX_MESSAGE_SIZE=%d: receiver requested %d bytes, outcome %s"
                         % (total, maxsize, conn.requested, out[:60]), case)
        # ---- D: "everything else raises an error": the decoder comes back
        if tag == "hang":
            ctx.fail("stuck:decoder-hangs", "the decoder does not terminate on a %d-byte string (still running after 30 s)" % len(stream), case)
        # ---- D: whatever is accepted is well formed and re-encodes to an equivalent message
        if rmsg is not None:
            _check_accepted(ctx, stream, rmsg, conn, case)
            # ... also through the constructor itself: a "header" that is the accepted header plus stray bytes does not tile
            if i % 5 == 0:
                from Pyro5 import protocol as _p
                for extra in (1, 7, 40):
                    hb = stream[:40 + extra] if len(stream) >= 40 + extra else stream[:40] + bytes(extra)
                    try:
                        _p.ReceivingMessage(hb)
                    except Exception:
                        continue
                    ctx.fail("accept-long-header", "ReceivingMessage(header) accepted a %d-byte header (40 header bytes + %d more)"
                             % (len(hb), extra), dict(case, header=hb.hex()))
        if len(ctx.samples) < 6 and tag in ("assertion", "ok") and len(stream) < 90 and rng.random() < 0.1:
            ctx.sample({"decode": lines[-1], "real": out})
    if do_model:
        outs = common.run_driver("drv_c06", lines)
        ctx.corr_cases += len(lines)
        for l, r, o in zip(lines, reals, outs):
            if r != o:
                ctx.mismatch("decode", {"line": l[:800]}, r[:300], o[:300])


def _check_accepted(ctx, stream, rmsg, conn, case):
    from Pyro5 import protocol
    used = conn.pos
    hdr = stream[:40]
    dsz = int.from_bytes(hdr[12:16], "big")
    asz = int.from_bytes(hdr[16:20], "big")
    # the 40 bytes in front of an accepted message are a header: tag, protocol version and magic number as the sender writes them
    # (Wire.parseHeader / C06_accepts_only_wellformed: an accepted stream starts with packHeader of the decoded fields)
    if hdr[:4] != b"PYRO" or hdr[4:6] != (502).to_bytes(2, "big") or hdr[38:40] != (0x4dc5).to_bytes(2, "big"):
        ctx.fail("accept-bad-header", "decoder accepted a message whose header has tag %r, version %d, magic 0x%04x"
                 % (bytes(hdr[:4]), int.from_bytes(hdr[4:6], "big"), int.from_bytes(hdr[38:40], "big")), case)
        return
    if used != 40 + asz + dsz:
        ctx.fail("accept-consumed", "accepted message consumed %d bytes, header declares %d" % (used, 40 + asz + dsz), case)
        return
    # annotation chunks must tile the annotation area exactly
    i = 0
    area = stream[40:40 + asz]
    chunks = {}
    ok = True
    while i < asz:
        if i + 8 > asz:
            ok = False
            break
        k = area[i:i + 4]
        ln = int.from_bytes(area[i + 4:i + 8], "big")
        if i + 8 + ln > asz:
            ok = False
            break
        chunks[k.decode("ascii", "replace")] = area[i + 8:i + 8 + ln]
        i += 8 + ln
    if not ok or i != asz:
        ctx.fail("accept-not-tiled", "decoder accepted a message whose annotation chunks do not tile the annotation area", case)
        return
    if {k: bytes(v) for k, v in rmsg.annotations.items()} != chunks:
        ctx.fail("accept-annotations", "decoded annotations differ from the chunks on the wire", case)
    # re-encode: an equivalent message (same fields modulo the managed flag bits, same payload / annotations / corr id)
    m2 = dict(type=rmsg.type, ser=rmsg.serializer_id, flags=rmsg.flags, seq=rmsg.seq, payload=bytes(rmsg.data),
              anns=[[k, bytes(v), "bytes"] for k, v in rmsg.annotations.items()], corr=bytes(rmsg.corr_id), comp=False)
    out, smsg = real_encode(m2, 10 ** 10)
    if smsg is None:
        if len(m2["payload"]) < 2 ** 32:
            ctx.fail("accept-reencode", "an accepted message cannot be re-encoded: %s" % out, case)
        return
    out2, rmsg2, _ = real_decode(bytes(smsg.data), [], 10 ** 10)
    if rmsg2 is None:
        ctx.fail("accept-reencode", "re-encoded message is rejected: %s" % out2, case)
        return
    a = (rmsg.type, rmsg.serializer_id, rmsg.flags | 64, rmsg.seq, bytes(rmsg.data), {k: bytes(v) for k, v in rmsg.annotations.items()}, bytes(rmsg.corr_id))
    b = (rmsg2.type, rmsg2.serializer_id, rmsg2.flags | 64, rmsg2.seq, bytes(rmsg2.data), {k: bytes(v) for k, v in rmsg2.annotations.items()}, bytes(rmsg2.corr_id))
    if a != b:
        ctx.fail("accept-reencode", "re-encoding an accepted message gives a different message", case)
        return
    # ... and where the sender has no freedom it re-encodes to EXACTLY the bytes that were consumed: the accepted bytes are the
    # encoding of the decoded message (oracle clause only; the theorems state acceptance => tiling (C06_accepts_only_wellformed)
    # and re-encodability up to equivalence (C06_reencode)).  The sender's freedom: the reserved field (always written 0),
    # the correlation id bytes when the CORR_ID flag is clear (always written 0), the compressor's output, a repeated annotation key
    # (a dict has it once).
    hflags = int.from_bytes(hdr[8:10], "big")
    nchunks = len(_chunk_offsets(stream[:used]))
    if hdr[36:38] == b"\0\0" and not (hflags & 2) and nchunks == len(chunks) == len(rmsg.annotations) \
            and ((hflags & 64) or hdr[20:36] == b"\0" * 16):
        m3 = dict(m2, corr=bytes(rmsg.corr_id) if (hflags & 64) else None)
        out3, smsg3 = real_encode(m3, 10 ** 10)
        if smsg3 is None or bytes(smsg3.data) != bytes(stream[:used]):
            ctx.fail("accept-not-an-encoding", "the decoder accepted %d bytes that are the encoding of no message: the decoded message "
                     "re-encodes to %s" % (used, out3[:120]), case)


def _fragmentation(ctx, name, n):
    """recv_stub over the real SocketConnection/receive_data on a fragmenting scripted socket
    yields the same message as over an unfragmented byte source (C06_fragmentation, composed with C17)."""
    from Pyro5 import protocol, socketutil, errors, config
    rng = ctx.sub_rng(name)
    realtime = socketutil.time
    socketutil.time = fakes.NoSleep(realtime)
    try:
        for i in range(n):
            m = gen_msg(rng)
            m["type"] %= 256; m["ser"] %= 256; m["flags"] %= 65536; m["seq"] %= 65536
            m["anns"] = [a for a in m["anns"] if len(a[0]) == 4 and a[0].isascii()]
            real, msg = real_encode(m, 10 ** 9)
            if msg is None:
                continue
            data = bytes(msg.data)
            rest = rng.randbytes(rng.choice([0, 5]))
            script = []
            for _ in range(len(data) + 8):
                script.append(("d", rng.choice([1, 1, 2, 3, 7, 40, 10 ** 6])) if rng.random() < 0.8 else ("r", rng.choice(list(socketutil.ERRNO_RETRIES))))
            script += [("d", 10 ** 6)] * (len(data) + 8)
            sock = fakes.ScriptedSocket(data + rest, script)
            old = socketutil.USE_MSG_WAITALL
            socketutil.USE_MSG_WAITALL = rng.random() < 0.5
            conn = socketutil.SocketConnection(sock, keep_open=True)
            try:
                rmsg = protocol.recv_stub(conn, None)
                got = (rmsg.type, rmsg.serializer_id, rmsg.seq, bytes(rmsg.data), [(k, bytes(v)) for k, v in rmsg.annotations.items()])
                exp = (m["type"], m["ser"], m["seq"], m["payload"], [(k, v) for k, v, _ in m["anns"]])
                ctx.evaluations += 1
                ctx.count("frag:ok")
                if len(sock.calls) > 3:
                    ctx.nontriv(("frag", enc_line(m, 0), repr(script[:40])))
                if got != exp or sock.pos != len(data):
                    ctx.fail("fragmentation", "fragmented delivery changed the decoded message or the bytes consumed (%d of %d)" % (sock.pos, len(data)),
                             {"msg": common.jsonable(m), "script": script[:len(data) + 8]})
            except Exception as x:
                ctx.fail("fragmentation", "fragmented delivery of a valid message failed: %r" % x,
                         {"msg": common.jsonable(m), "script": script[:len(data) + 8]})
            finally:
                socketutil.USE_MSG_WAITALL = old
    finally:
        socketutil.time = realtime


def _sequence(ctx, name, n):
    """back-to-back messages on ONE connection (C06Src.C06_roundtrip_sequence): recv_stub called k times reads the k messages in
    order, each time exactly its own bytes, and leaves what follows the last one; over the exact-n byte source and over the real
    SocketConnection on a fragmenting scripted socket"""
    from Pyro5 import protocol, socketutil, errors, config
    rng = ctx.sub_rng(name)
    realtime = socketutil.time
    socketutil.time = fakes.NoSleep(realtime)
    old_max, old_waitall = config.MAX_MESSAGE_SIZE, socketutil.USE_MSG_WAITALL
    try:
        for i in range(n):
            k = rng.choice([2, 2, 3, 4])
            msgs, datas = [], []
            while len(msgs) < k:
                m = gen_msg(rng)
                m["type"] %= 256; m["ser"] %= 256; m["flags"] %= 65536; m["seq"] %= 65536
                m["anns"] = [a for a in m["anns"] if len(a[0]) == 4 and a[0].isascii()]
                real, msg = real_encode(m, 10 ** 9)
                if msg is not None:
                    msgs.append(m)
                    datas.append(bytes(msg.data))
            rest = rng.randbytes(rng.choice([0, 0, 3, 40]))
            stream = b"".join(datas) + rest
            over_socket = rng.random() < 0.5
            if over_socket:
                script = []
                for _ in range(len(stream) + 8):
                    script.append(("d", rng.choice([1, 2, 3, 7, 34, 40, 41, 100, 10 ** 6])) if rng.random() < 0.85
                                  else ("r", rng.choice(list(socketutil.ERRNO_RETRIES))))
                script += [("d", 10 ** 6)] * (len(stream) + 8)
                sock = fakes.ScriptedSocket(stream, script)
                socketutil.USE_MSG_WAITALL = rng.random() < 0.5
                conn = socketutil.SocketConnection(sock, keep_open=True)
                consumed = lambda: sock.pos
            else:
                script = None
                conn = FakeConn(stream, errors)
                consumed = lambda: conn.pos
            config.MAX_MESSAGE_SIZE = 10 ** 9
            case = {"msgs": [common.jsonable(m) for m in msgs], "rest": rest.hex(), "over_socket": over_socket,
                    "script": script[:len(stream) + 8] if script else None}
            ctx.evaluations += 1
            upto = 0
            try:
                for j, (m, data) in enumerate(zip(msgs, datas)):
                    rmsg = protocol.recv_stub(conn, None)
                    upto += len(data)
                    got = (rmsg.type, rmsg.serializer_id, rmsg.seq, bytes(rmsg.data), [(k2, bytes(v)) for k2, v in rmsg.annotations.items()])
                    exp = (m["type"], m["ser"], m["seq"], m["payload"], [(k2, v) for k2, v, _ in m["anns"]])
                    if got != exp:
                        ctx.fail("sequence", "message %d of %d back-to-back messages is decoded as a different message" % (j + 1, len(msgs)), case)
                        break
                    if consumed() != upto:
                        ctx.fail("sequence", "after message %d of %d back-to-back messages %d bytes are consumed, the messages so far have %d"
                                 % (j + 1, len(msgs), consumed(), upto), case)
                        break
                else:
                    ctx.count("seq:ok")
                    ctx.nontriv(("seq", i, len(stream)))
            except Exception as x:
                ctx.fail("sequence", "decoding %d back-to-back valid messages failed: %r" % (len(msgs), x), case)
    finally:
        socketutil.time = realtime
        config.MAX_MESSAGE_SIZE, socketutil.USE_MSG_WAITALL = old_max, old_waitall


def _memoryview_itemsize(ctx):
    """excluded point of the model's byte-buffer domain, run on the real code: memoryview annotation with itemsize > 1"""
    import array
    from Pyro5 import protocol
    for typecode, vals in (("H", [1, 2, 3]), ("I", [7]), ("d", [1.5, 2.5])):
        mv = memoryview(array.array(typecode, vals))
        try:
            msg = protocol.SendingMessage(4, 0, 1, 2, b"pp", {"ABCD": mv})
        except Exception:
            continue     # refusing is fine
        data = bytes(msg.data)
        ctx.evaluations += 1
        out, rmsg, conn = real_decode(data, [], 10 ** 9)
        good = rmsg is not None and bytes(rmsg.annotations.get("ABCD", b"")) == mv.tobytes() and bytes(rmsg.data) == b"pp" and conn.pos == len(data)
        if not good:
            ctx.fail("memoryview-itemsize", "annotation value memoryview(array('%s')) (itemsize %d): header declares %d annotation bytes, body carries %d; receiver: %s"
                     % (typecode, mv.itemsize, int.from_bytes(data[16:20], "big"), 8 + mv.nbytes, out[:50]),
                     {"typecode": typecode, "values": vals})


def correspondence(ctx):
    common.repo_on_path()
    for c in _corpus():
        pass
    _encode_suite(ctx, "enc", ctx.n(4000, 150000), True)
    _decode_suite(ctx, "dec", ctx.n(5000, 200000), True)


def oracle(ctx):
    common.repo_on_path()
    if not ctx.search_mode:
        _fragmentation(ctx, "frag", ctx.n(300, 5000))
        _sequence(ctx, "seq", ctx.n(300, 5000))
        _memoryview_itemsize(ctx)
    else:
        _encode_suite(ctx, "enc-search", ctx.n(6000, 100000), False)
        _decode_suite(ctx, "dec-search", ctx.n(8000, 100000), False)
        _fragmentation(ctx, "frag-search", ctx.n(300, 3000))
        _sequence(ctx, "seq-search", ctx.n(300, 3000))


def replay(ctx, case):
    f = case.get("failing_input") or {}
    print(json.dumps(f, indent=1)[:3000])
    c = f.get("case") or {}
    common.repo_on_path()
    if "stream" in c:
        out, rmsg, conn = real_decode(bytes.fromhex(c["stream"]), c["accepted"], c["maxsize"])
        print("recv_stub ->", out[:300])
    return 1 if f else 0
