"""C10 extractor: the facts the Lean model rests on, obtained by PROBING the real code (calling the real methods on prepared
stream tables under a controlled clock, with recording / vanishing dict stand-ins) rather than by matching the spelling of
today's source.  A behaviour-preserving refactoring (helpers extracted, guards instead of nested ifs, `list(d)` for
`list(d.keys())`, `pop` / `try: del` ...) yields the same facts; a behaviour change yields different ones."""
import json
import threading

import common


# ---- stand-ins ---------------------------------------------------------------------------------------------------
class _Conn:
    def __init__(self, idx):
        self.idx = idx


class _Clock:
    def __init__(self, real, now):
        self._real, self.now = real, now

    def time(self):
        return self.now

    def sleep(self, d):
        pass

    def __getattr__(self, name):
        return getattr(self._real, name)


class _VanishDict(dict):
    """a stream table in which a key is removed by `someone else` right after this thread has looked it up"""

    def _gone(self, k):
        dict.pop(self, k, None)

    def get(self, k, default=None):
        v = dict.get(self, k, default)
        self._gone(k)
        return v

    def __getitem__(self, k):
        v = dict.__getitem__(self, k)
        self._gone(k)
        return v

    def __contains__(self, k):
        r = dict.__contains__(self, k)
        self._gone(k)
        return r


class _RecLock:
    def __init__(self):
        self.held = 0

    def acquire(self, *a, **k):
        self.held += 1
        return True

    def release(self):
        self.held -= 1

    def __enter__(self):
        self.held += 1
        return self

    def __exit__(self, *a):
        self.held -= 1


def _recdict(lock, log):
    def wrap(name):
        real = getattr(dict, name)

        def f(self, *a, **k):
            log.append(lock.held > 0)
            return real(self, *a, **k)
        return f
    ns = {m: wrap(m) for m in ("__contains__", "__getitem__", "__setitem__", "__delitem__", "get", "pop", "keys", "items",
                               "values", "__iter__", "__len__", "popitem", "setdefault", "update", "clear", "copy")}
    return type("RecDict", (dict,), ns)


class _Env:
    """one real Daemon (subclass with a switchable failing disconnect hook) on a controlled clock; everything restored on exit"""

    def __enter__(self):
        common.repo_on_path()
        from Pyro5 import server, config, core
        self.server, self.config = server, config
        self.saved = (server.time, config.SERVERTYPE, config.ITER_STREAMING, config.ITER_STREAM_LIFETIME, config.ITER_STREAM_LINGER,
                      server.current_context.correlation_id, getattr(server.current_context, "client", None))
        self.clock = _Clock(server.time, 100)
        server.time = self.clock
        config.SERVERTYPE = "multiplex"
        env = self
        self.hook_calls = 0

        class ProbeDaemon(server.Daemon):
            hook_fails = False

            def clientDisconnect(self, conn):
                env.hook_calls += 1
                if self.hook_fails:
                    raise KeyError("hook")
        try:
            self.daemon = ProbeDaemon(host="localhost", port=0)
        except BaseException:
            self._restore()
            raise
        config.SERVERTYPE = self.saved[1]
        self.dobj = self.daemon.objectsById[core.DAEMON_NAME]
        return self

    def _restore(self):
        s = self.saved
        self.server.time, self.config.SERVERTYPE = s[0], s[1]
        self.config.ITER_STREAMING, self.config.ITER_STREAM_LIFETIME, self.config.ITER_STREAM_LINGER = s[2], s[3], s[4]
        self.server.current_context.correlation_id, self.server.current_context.client = s[5], s[6]

    def __exit__(self, *a):
        try:
            self.daemon.streaming_responses = {}
            self.daemon.close()
        finally:
            self._restore()

    def settings(self, lifetime, linger, streaming=True):
        self.config.ITER_STREAMING, self.config.ITER_STREAM_LIFETIME, self.config.ITER_STREAM_LINGER = streaming, lifetime, linger


# ---- probes ------------------------------------------------------------------------------------------------------
HK_CONFIGS = [(0, 0), (5, 0), (0, 4), (5, 4), (-2, -3)]
NOW = 100


def hk_entries():
    out = []
    for owner in (0, None):
        for created in (94, 95, 96):
            for lts in (0, 95, 96, 97):
                out.append((owner, created, lts))
    return out


def probe_housekeeping(env):
    """which entries survive one real _housekeeping() pass; rows (lifetime, linger, now, entries, survives)"""
    rows = []
    conns = {0: _Conn(0)}
    for lifetime, linger in HK_CONFIGS:
        for entries in (hk_entries(), []):
            env.settings(lifetime, linger)
            env.clock.now = NOW
            env.daemon.streaming_responses = {"s%d" % i: (None if o is None else conns[o], c, l, iter(()))
                                              for i, (o, c, l) in enumerate(entries)}
            env.daemon._housekeeping()
            left = env.daemon.streaming_responses
            for i, (o, c, l) in enumerate(entries):
                if "s%d" % i in left and (left["s%d" % i][1], left["s%d" % i][2]) != (c, l):
                    raise ValueError("housekeeping rewrote a surviving entry: outside the model")
            rows.append((lifetime, linger, NOW, entries, ["s%d" % i in left for i in range(len(entries))]))
    return rows


def probe_disconnect(env):
    """_clientDisconnect(conn 0) on a table of entries; rows (linger, now, entries, result) with result = per entry
    None (removed) or (owner, linger start)"""
    rows = []
    conns = {0: _Conn(0), 1: _Conn(1)}
    entries = [(o, 90, l) for o in (0, 1, None) for l in (0, 50)]
    for linger in (0, 4, -3):
        env.settings(0, linger)
        env.clock.now = NOW
        env.daemon.hook_fails = False
        env.daemon.streaming_responses = {"s%d" % i: (None if o is None else conns[o], c, l, iter(()))
                                          for i, (o, c, l) in enumerate(entries)}
        env.daemon._clientDisconnect(conns[0])
        left = env.daemon.streaming_responses
        res = []
        for i in range(len(entries)):
            v = left.get("s%d" % i)
            res.append(None if v is None else (None if v[0] is None else v[0].idx, v[2]))
        rows.append((linger, NOW, entries, res))
    return rows


def probe_removal_tolerance(env):
    """per removal site: does the function survive the stream having been removed by someone else in the meantime?"""
    out = []
    conn = _Conn(0)
    d = env.daemon

    # get_next_stream_item: the stream vanishes while next(stream) runs; the iterator then ends
    class Vanishing:
        def __iter__(self):
            return self

        def __next__(self):
            d.streaming_responses.pop("s", None)
            raise StopIteration
    env.settings(0, 30)
    d.streaming_responses = {"s": (conn, NOW, 0, Vanishing())}
    env.server.current_context.client = conn
    try:
        env.dobj.get_next_stream_item("s")
        tol = None
    except StopIteration:
        tol = True
    except KeyError:
        tol = False
    if tol is None:
        raise ValueError("probe: get_next_stream_item on an exhausted iterator returned a value")
    out.append(("get_next_stream_item", tol))

    def survives(fn):
        try:
            fn()
            return True
        except KeyError:
            return False
    # close_stream
    d.streaming_responses = _VanishDict({"s": (conn, NOW, 0, iter(()))})
    out.append(("close_stream", survives(lambda: env.dobj.close_stream("s"))))
    # _clientDisconnect without linger
    env.settings(0, 0)
    d.hook_fails = False
    d.streaming_responses = _VanishDict({"s": (conn, NOW, 0, iter(())), "t": (conn, NOW, 0, iter(()))})
    out.append(("_clientDisconnect", survives(lambda: d._clientDisconnect(conn))))
    # _housekeeping, lifetime expiry / linger expiry
    env.clock.now = NOW
    env.settings(5, 0)
    d.streaming_responses = _VanishDict({"s": (conn, 10, 0, iter(())), "t": (conn, 10, 0, iter(()))})
    out.append(("_housekeeping/lifetime", survives(d._housekeeping)))
    env.settings(0, 4)
    d.streaming_responses = _VanishDict({"s": (None, 10, 20, iter(())), "t": (None, 10, 20, iter(()))})
    out.append(("_housekeeping/linger", survives(d._housekeeping)))
    d.streaming_responses = {}
    return out


def probe_next_exceptions(env):
    """an Exception (StopIteration included) raised by next(stream) removes the stream and reaches the caller unchanged"""
    class Custom(Exception):
        pass
    conn = _Conn(0)
    ok = True
    for exc in (StopIteration(), ValueError("v"), Custom("c")):
        class Raising:
            def __iter__(self):
                return self

            def __next__(self):
                raise exc
        env.daemon.streaming_responses = {"s": (conn, NOW, 0, Raising())}
        env.server.current_context.client = conn
        try:
            env.dobj.get_next_stream_item("s")
            ok = False
        except BaseException as x:
            ok = ok and x is exc and "s" not in env.daemon.streaming_responses
    env.daemon.streaming_responses = {}
    return ok


def probe_lock(env):
    """accesses of the stream table during a real _housekeeping() pass: how many with housekeeper_lock held / not held"""
    log = []
    lock = _RecLock()
    old = env.daemon.housekeeper_lock
    env.daemon.housekeeper_lock = lock
    try:
        env.settings(5, 4)
        env.clock.now = NOW
        conn = _Conn(0)
        env.daemon.streaming_responses = _recdict(lock, log)({"a": (conn, 10, 0, iter(())), "b": (None, 99, 20, iter(())),
                                                               "c": (conn, 99, 0, iter(()))})
        env.daemon._housekeeping()
        if sorted(dict.keys(env.daemon.streaming_responses)) != ["c"]:
            raise ValueError("probe: housekeeping did not expire what it should")
    finally:
        env.daemon.housekeeper_lock = old
        env.daemon.streaming_responses = {}
    return sum(1 for h in log if h), sum(1 for h in log if not h)


def probe_hook(env):
    """a user hook clientDisconnect() that raises: is it called exactly once, and is the stream bookkeeping done all the same?"""
    conns = {0: _Conn(0)}
    ok = True
    for linger in (0, 4):
        env.settings(0, linger)
        env.clock.now = NOW
        env.daemon.hook_fails = True
        env.hook_calls = 0
        env.daemon.streaming_responses = {"s": (conns[0], 90, 0, iter(()))}
        try:
            env.daemon._clientDisconnect(conns[0])
            ok = False          # the hook's exception must reach the transport server (it logs it)
        except KeyError:
            pass
        v = env.daemon.streaming_responses.get("s")
        done = (v is None) if linger <= 0 else (v is not None and v[0] is None and v[2] == NOW)
        ok = ok and done and env.hook_calls == 1
    env.daemon.hook_fails = False
    env.daemon.streaming_responses = {}
    return ok


def probe_stream_ids(env):
    """ids of new streams under an IDENTICAL request context (same correlation id, connection, clock): all different"""
    import uuid
    conn = _Conn(0)
    env.settings(0, 30)
    env.server.current_context.correlation_id = uuid.UUID(int=7)
    env.server.current_context.client = conn
    env.daemon.streaming_responses = {}
    ids = []
    for _ in range(64):
        is_stream, sid = env.daemon._streamResponse(iter((1, 2)), conn)
        if not is_stream or not isinstance(sid, str) or not sid:
            return False
        ids.append(sid)
    ok = len(set(ids)) == 64 and len(env.daemon.streaming_responses) == 64
    env.daemon.streaming_responses = {}
    return ok


def probe_housekeeping_drivers(env):
    """does the transport make housekeeping passes: multiplex after a batch of events, multiplex when idle, thread server's
    Housekeeper thread; and does a failing pass end the Housekeeper loop"""
    from Pyro5 import svr_threads
    d = env.daemon
    calls = []
    d._housekeeping = lambda: calls.append(1)       # instance attribute shadows the method for the probe
    try:
        srv = d.transportServer
        srv.events([])
        mux_events = len(calls) == 1
        # idle branch of loop(): a selector that reports nothing
        calls.clear()

        class NoEvents:
            def select(self, timeout=None):
                return []
        old_sel = srv.selector
        srv.selector = NoEvents()
        rounds = [True, False]
        try:
            srv.loop(loopCondition=lambda: rounds.pop(0))
        finally:
            srv.selector = old_sel
        mux_idle = len(calls) >= 1
    finally:
        del d._housekeeping

    class Stop:
        def __init__(self, answers):
            self.answers = list(answers)

        def wait(self, timeout=None):
            return self.answers.pop(0) if self.answers else True

    class StubDaemon:
        def __init__(self, fail_first):
            self.n, self.fail_first = 0, fail_first

        def _housekeeping(self):
            self.n += 1
            if self.fail_first and self.n == 1:
                raise KeyError("pass fails")
    sd = StubDaemon(False)
    hk = svr_threads.Housekeeper(sd)
    hk.stop = Stop([False, False, True])
    hk.run()
    thread_runs = sd.n == 2
    sd = StubDaemon(True)
    hk = svr_threads.Housekeeper(sd)
    hk.stop = Stop([False, False, True])
    try:
        hk.run()
        guarded = sd.n == 2
    except KeyError:
        guarded = False
    return mux_events, mux_idle, thread_runs, guarded


def probe_seq_mask():
    """the wrap of Proxy._pyroSeq: real _pyroInvoke (oneway, stub connection) from 2^k - 1"""
    common.repo_on_path()
    from Pyro5 import client, protocol

    class StubConn:
        objectId = "obj"

        def send(self, data):
            pass

        def close(self):
            pass
    p = client.Proxy("PYRO:obj@localhost:1")
    try:
        def bump(v):
            p._pyroConnection = StubConn()
            p._pyroSeq = v
            p._pyroInvoke("m", [], {}, flags=protocol.FLAGS_ONEWAY)
            return p._pyroSeq
        if bump(5) != 6:
            raise ValueError("probe: _pyroInvoke does not advance _pyroSeq by one")
        for k in range(1, 65):
            if bump(2 ** k - 1) == 0:
                return 2 ** k - 1
        raise ValueError("probe: _pyroSeq does not wrap")
    finally:
        p._pyroConnection = None


def probe_client_drop():
    """after which exceptions of the remote call does _StreamResultIterator.__next__ drop its proxy"""
    common.repo_on_path()
    from Pyro5 import client, errors

    class StubProxy:
        _pyroConnection = object()
        _pyroSeq = 0

        def __init__(self, exc):
            self.exc = exc

        def _pyroInvoke(self, *a, **k):
            raise self.exc
    dropped = []
    for name, exc in (("StopIteration", StopIteration()), ("GeneratorExit", GeneratorExit()), ("ValueError", ValueError("x")),
                      ("PyroError", errors.PyroError("item stream terminated")), ("ConnectionClosedError", errors.ConnectionClosedError("c"))):
        it = client._StreamResultIterator("sid", StubProxy(exc))
        try:
            next(it)
        except BaseException as x:
            if x is not exc:
                raise ValueError("probe: client iterator changed the exception %s" % name)
        if it.proxy is None:
            dropped.append(name)
        it.proxy = None
    return dropped


_cache = {}


# value used for a fact whose probe could not be completed (the behaviour is outside what the model knows): every obligation
# about it fails, and the reason is listed in `probeErrors`
_FAILED = {
    "hk": [], "disc": [], "removal": [(k, False) for k in ("get_next_stream_item", "close_stream", "_clientDisconnect",
                                                            "_housekeeping/lifetime", "_housekeeping/linger")],
    "next_exc": False, "lock": (0, 1), "hook": False, "ids": False, "drivers": (False, False, False, False),
    "mask": 0, "client_drop": ["?"],
}


def facts():
    """all probes, once per process and source tree; a probe that cannot be completed never raises"""
    key = common.REPO
    if key in _cache:
        return _cache[key]
    f = {"errors": []}

    def run(name, fn, *a):
        try:
            f[name] = fn(*a)
        except Exception as x:
            f[name] = _FAILED[name]
            f["errors"].append("%s: %s: %s" % (name, type(x).__name__, str(x)[:120]))
    try:
        with _Env() as env:
            for name, fn in (("hk", probe_housekeeping), ("disc", probe_disconnect), ("removal", probe_removal_tolerance),
                             ("next_exc", probe_next_exceptions), ("lock", probe_lock), ("hook", probe_hook),
                             ("ids", probe_stream_ids), ("drivers", probe_housekeeping_drivers)):
                run(name, fn, env)
    except Exception as x:
        f["errors"].append("environment: %s: %s" % (type(x).__name__, str(x)[:120]))
        for name in ("hk", "disc", "removal", "next_exc", "lock", "hook", "ids", "drivers"):
            f.setdefault(name, _FAILED[name])
    run("mask", probe_seq_mask)
    run("client_drop", probe_client_drop)
    _cache[key] = f
    return f


def modes():
    """'s'/'t' per function (next, close, disconnect, housekeeping) for the race model; None if housekeeping's two loops differ"""
    r = dict(facts()["removal"])
    if r["_housekeeping/lifetime"] != r["_housekeeping/linger"]:
        return None
    return "".join("t" if r[k] else "s" for k in ("get_next_stream_item", "close_stream", "_clientDisconnect", "_housekeeping/lifetime"))


def housekeeper_guarded():
    return facts()["drivers"][3]


# ---- Lean rendering ----------------------------------------------------------------------------------------------
def _b(x):
    return "true" if x else "false"


def _opt(x):
    return "none" if x is None else "some %d" % x


def extract():
    common.repo_on_path()
    from Pyro5 import configure
    f = facts()
    cfg = configure.Configuration()

    def milli(x):
        return int(round(float(x) * 1000))

    def entries(es):
        return "[" + ", ".join("(%s, %d, %d)" % (_opt(o), c, l) for o, c, l in es) + "]"
    hk_rows = ",\n  ".join("(%d, %d, %d, %s, [%s])" % (lt, lg, now, entries(es), ", ".join(_b(s) for s in surv))
                           for lt, lg, now, es, surv in f["hk"])
    disc_rows = ",\n  ".join("(%d, %d, %s, [%s])" % (lg, now, entries(es), ", ".join(
        "none" if r is None else "some (%s, %d)" % (_opt(r[0]), r[1]) for r in res)) for lg, now, es, res in f["disc"])
    removal = ", ".join('("%s", %s)' % (k, _b(v)) for k, v in f["removal"])
    mux_events, mux_idle, thread_runs, guarded = f["drivers"]
    return f"""-- GENERATED by harness/props/c10_probe.py by probing the real Pyro5 code (server.py, client.py, svr_multiplex.py, svr_threads.py) — do not edit
namespace Pyro.Gen.C10
/-- one real `_housekeeping()` pass on a prepared table at clock `now`:
    (lifetime, linger, now, entries (owner, created, linger start), which entries survive) -/
def hkProbe : List (Int × Int × Nat × List (Option Nat × Nat × Nat) × List Bool) := [
  {hk_rows}]
/-- one real `_clientDisconnect(connection 0)` on a prepared table at clock `now`:
    (linger, now, entries, per entry: removed = none | some (owner, linger start)) -/
def discProbe : List (Int × Nat × List (Option Nat × Nat × Nat) × List (Option (Option Nat × Nat))) := [
  {disc_rows}]
/-- per removal site: the function survives the stream having been removed by another thread between its lookup and its removal -/
def removalTolerant : List (String × Bool) := [{removal}]
/-- an `Exception` raised by `next(stream)` (StopIteration, ValueError, a user class) removes the stream and reaches the caller unchanged -/
def nextRemovesAndReraises : Bool := {_b(f["next_exc"])}
/-- accesses of the stream table during a `_housekeeping()` pass with / without `housekeeper_lock` held -/
def hkAccessesLocked : Nat := {f["lock"][0]}
def hkAccessesUnlocked : Nat := {f["lock"][1]}
/-- a user hook `clientDisconnect` that raises is called exactly once, its exception propagates, and the stream bookkeeping is done all the same -/
def hookCannotSkipBookkeeping : Bool := {_b(f["hook"])}
/-- 64 streams opened under an identical request context (correlation id, connection, clock) get 64 different ids -/
def streamIdsFresh : Bool := {_b(f["ids"])}
/-- a batch of multiplex events is followed by a housekeeping pass; the idle multiplex loop makes passes; the Housekeeper thread makes passes -/
def muxEventsHousekeeps : Bool := {_b(mux_events)}
def muxIdleHousekeeps : Bool := {_b(mux_idle)}
def threadHousekeeperRuns : Bool := {_b(thread_runs)}
/-- the Housekeeper thread survives a failing pass -/
def housekeeperGuarded : Bool := {_b(guarded)}
/-- `Proxy._pyroSeq` wraps to 0 after this value -/
def seqMask : Nat := {f["mask"]}
/-- exceptions of the remote call after which `_StreamResultIterator.__next__` drops its proxy
    (tried: StopIteration, GeneratorExit, ValueError, PyroError, ConnectionClosedError) -/
def clientDropsProxyOn : List String := {json.dumps(f["client_drop"])}
/-- probes that could not be completed (behaviour outside what the model knows); must be empty -/
def probeErrors : List String := {json.dumps(f["errors"])}
/-- configuration defaults (seconds * 1000) -/
def defaultStreaming : Bool := {_b(cfg.ITER_STREAMING)}
def defaultLifetimeMilli : Int := {milli(cfg.ITER_STREAM_LIFETIME)}
def defaultLingerMilli : Int := {milli(cfg.ITER_STREAM_LINGER)}
end Pyro.Gen.C10
"""
