"""
C05 rig: srvkit.Rig (REAL Daemon, REAL transports, in-memory sockets) driven through the REAL
`transportServer.loop()` of both server types, so that what is observed is the request loop itself:

  thread-pool server : loop() -> events() -> accept -> Pool.process(job) | job.denyConnection(...)
                       (the listening socket and the acceptor's selector are in-memory stand-ins;
                        Pool.process is wrapped only to learn when a job has finished)
  multiplex server   : loop() -> selector.select() -> events() -> _handleConnection | handleRequest
                       (the selector is an in-memory stand-in that reports a connection readable
                        when bytes / an ending are pending on it)

`loop()` is given a loopCondition that is true while something is pending; an exception that leaves
`loop()` is recorded (`loop_exc`): in a daemon it would leave requestLoop().
Sockets are `PeerSock`s: once the peer is `gone`, send() fails with EPIPE like a real socket whose
peer has closed.
"""
import errno
import selectors
import socket
import threading
import time
import traceback

import common
import srvkit
from props import c06

common.repo_on_path()

SETTLE = 20.0
WATCHDOG = 15
STREAM_BASE = 900000        # exec token of a fetched stream item = STREAM_BASE + the item (see LoopRig: get_next_stream_item)
STREAM_PLACEHOLDER = b"00000000-0000-0000-0000-000000000000"    # stands for the stream id the daemon will have handed out


class PeerSock(srvkit.FakeSock):
    """in-memory server-side socket that behaves like a kernel socket where the daemon's except / finally / log paths
    can tell the difference:
      * once the peer is `gone`, send() fails with EPIPE;
      * once the peer has RESET the connection, getpeername() fails with ENOTCONN (a TCP socket in state CLOSE),
        also while bytes that arrived before the reset can still be read;
      * a peer that stays connected but sends nothing more ("silent" ending): every recv() that would have to wait
        for it is recorded in `waited` (the daemon must not need more bytes to refuse an invalid prefix);
      * a silent peer ("timeout" ending) makes recv() raise socket.timeout only if a timeout was SET on this socket;
        without one a real recv() would block for ever: recorded in `blocked` (who was blocked, by thread name) -
        and then the run goes on as if the peer had gone away, since the harness cannot wait for ever."""
    gone = False
    rig = None

    def send(self, data):
        if self.gone and not self.closed:
            raise BrokenPipeError(errno.EPIPE, "Broken pipe")
        return super().send(data)

    def sendall(self, data):
        self.send(data)

    def getpeername(self):
        if self.ending == "reset":
            raise OSError(errno.ENOTCONN, "Transport endpoint is not connected")
        return super().getpeername()

    def recv(self, n, flags=0):
        with self.cond:
            silent = self.ending == "silent" and not self.inbound and not self.closed
            # the accept loop / the multiplex loop runs in the harness's thread: a recv() there that finds neither bytes nor
            # an ending would make the whole server wait for this one (connected, quiet) peer
            if not silent and self.rig is not None and self.ending is None and not self.inbound and not self.closed \
                    and threading.current_thread().name == self.rig.main_thread:
                silent = True
        if silent:
            # the peer stays connected and sends nothing more: a real recv() waits here (until the timeout, if one is set)
            if self.rig is not None:
                self.rig.waited.append((self.index, threading.current_thread().name))
            if self.timeout is not None:
                raise socket.timeout("timed out")
            return b""                      # the harness cannot wait for ever: go on as if the peer had left
        try:
            return super().recv(n, flags)
        except socket.timeout:
            if self.timeout is None and self.rig is not None:
                self.rig.blocked.append((self.index, threading.current_thread().name))
            raise


class AcceptSelector:
    """stand-in for SocketServer_Threadpool._selector: readable while connections wait in the listener"""

    def __init__(self, listener):
        self.listener = listener

    def select(self, timeout=None):
        return [(None, selectors.EVENT_READ)] if self.listener.queue else []

    def register(self, *a, **k):
        pass

    def unregister(self, *a, **k):
        pass

    def close(self):
        pass


class LoopSelector:
    """stand-in for SocketServer_Multiplex.selector (same bookkeeping as srvkit.FakeSelector, plus select())"""

    def __init__(self, rig):
        self.rig = rig
        self.map = {}
        self.data = {}
        self.log = []

    def register(self, fileobj, events, data=None):
        if id(fileobj) in self.map:
            raise KeyError("already registered")
        self.map[id(fileobj)] = fileobj
        self.data[id(fileobj)] = data
        self.log.append(("reg", fileobj))

    def unregister(self, fileobj):
        del self.map[id(fileobj)]
        self.data.pop(id(fileobj), None)
        self.log.append(("unreg", fileobj))

    def get_map(self):
        return dict(self.map)

    def close(self):
        pass

    def ready(self):
        out = []
        for k, f in list(self.map.items()):
            if f is self.rig.listener:
                if f.queue:
                    out.append(f)
                continue
            s = getattr(f, "sock", None)
            if s is None:
                continue
            if s.inbound or (s.ending and s.ending != "silent" and not getattr(s, "_ending_seen", False)):
                out.append(f)
        return out

    def select(self, timeout=None):
        out = []
        for f in self.ready():
            s = getattr(f, "sock", None)
            if s is not None and not s.inbound and s.ending:
                s._ending_seen = True
            out.append((selectors.SelectorKey(f, f.fileno(), selectors.EVENT_READ, self.data.get(id(f))), selectors.EVENT_READ))
        return out


class LoopRig(srvkit.Rig):
    def __init__(self, servertype, poolsize=8, commtimeout=0.0, linger=None):
        super().__init__(servertype, poolsize=poolsize, linger=linger)      # ITER_STREAM_LINGER, restored by Rig.close()
        from Pyro5 import config
        config.COMMTIMEOUT = commtimeout          # restored by Rig.close()
        config.MAX_MESSAGE_SIZE = 1 << 20
        self.trap = Trap.get()
        self.trap.armed = True
        self.trap_mark = len(self.trap.attempts)
        self.loop_alive = True
        self.unsettled = False
        self.spun = False                         # a serving thread never became idle again
        self.blocked = []                         # (connection, thread) whose recv() had no timeout while the peer stalled
        self.waited = []                          # (connection, thread): a recv() had to wait for a connected but silent peer
        self.main_thread = threading.current_thread().name
        self.loop_exc = None                      # (class name, innermost transport function, text)
        self.iterations = 0
        from Pyro5 import server
        rig = self

        @server.expose
        class Poison(object):
            """methods raising exceptions whose serialisation fails in ways other than TypeError / ValueError / SerializeError"""
            def ignore(self, x, token):
                """takes any argument and does not look at it"""
                conn = rig.ctx.client
                with rig.lock:
                    rig.execs.append((conn.sock.index if conn is not None else -1, token))
                return token

            def items(self, token):
                """the result is an iterator that is NOT a generator (no close()): the daemon opens an item stream for it"""
                conn = rig.ctx.client
                with rig.lock:
                    rig.execs.append((conn.sock.index if conn is not None else -1, token))
                return iter([1, 2, 3])

            def boom(self, kind, token):
                conn = rig.ctx.client
                with rig.lock:
                    rig.execs.append((conn.sock.index if conn is not None else -1, token))
                e = ValueError("boom %d" % token)
                e.extra = poison_value(kind)
                raise e

            def commfail(self, kind, token):
                """what a method gets when a NESTED proxy call of its own fails: a Pyro CommunicationError that is neither
                ConnectionClosedError nor SerializeError"""
                from Pyro5 import errors
                conn = rig.ctx.client
                with rig.lock:
                    rig.execs.append((conn.sock.index if conn is not None else -1, token))
                cls = {"timeout": errors.TimeoutError, "protocol": errors.ProtocolError,
                       "toolarge": errors.MessageTooLargeError, "comm": errors.CommunicationError}[kind]
                raise cls("nested call failed %d" % token)
        self.Poison = Poison
        self.daemon.register(Poison(), "poison")
        # fetching an item of a stream is a call like any other: log it (token = STREAM_BASE + the item it returned)
        from Pyro5 import core as _core
        dobj = self.daemon.objectsById[_core.DAEMON_NAME]
        inner = dobj.get_next_stream_item

        def get_next_stream_item(streamId, _inner=inner):
            result = _inner(streamId)
            conn = rig.ctx.client
            if isinstance(result, int):
                with rig.lock:
                    rig.execs.append((conn.sock.index if conn is not None else -1, STREAM_BASE + result))
            return result
        for tag in ("_pyroExposed", "_pyroOneway", "_pyroCallback", "__name__", "__doc__"):
            if hasattr(inner, tag):
                try:
                    setattr(get_next_stream_item, tag, getattr(inner, tag))
                except (AttributeError, TypeError):
                    pass
        dobj.get_next_stream_item = get_next_stream_item
        self.housekeeper_died = None
        srv = self.daemon.transportServer
        if servertype == "thread":
            self.listener = srvkit.FakeListener()
            self.real_sock = srv.sock
            self.real_acceptsel = srv._selector
            srv._selector = AcceptSelector(self.listener)
            pool = srv.pool
            orig = pool.process
            rig = self

            def process(job):
                idx = job.csock.sock.index
                done = threading.Event()

                class J:
                    def __call__(self_inner):
                        try:
                            job()
                        finally:
                            done.set()
                orig(J())                         # raises NoFreeWorkersError when the pool is full
                rig.jobs[idx] = done
            pool.process = process
        else:
            self.selector = LoopSelector(self)
            srv.selector = self.selector
            self.selector.register(self.listener, selectors.EVENT_READ, srv)

    # ------------------------------------------------------------------------------------------
    def sock(self, idx):
        while len(self.socks) <= idx:
            self.socks.append(PeerSock(len(self.socks)))
            self.socks[-1].rig = self
        return self.socks[idx]

    def pool_full(self):
        from Pyro5 import config
        p = self.daemon.transportServer.pool
        return (not p.idle) and (len(p.busy) + len(p.idle) >= config.THREADPOOL_SIZE)

    def _run_loop(self):
        """run the server's own loop() until nothing is pending"""
        srv = self.daemon.transportServer
        srv.sock = self.listener
        rig = self

        def pending():
            rig.iterations += 1
            if rig.iterations > 5000:
                raise srvkit.Stuck("request loop does not come to rest")
            if rig.servertype == "thread":
                return bool(rig.listener.queue)
            return bool(rig.selector.ready())
        self.iterations = 0
        try:
            try:
                # everything a loop slice does is computation over bytes already delivered (the in-memory sockets never
                # wait silently): if it has not come back after WATCHDOG seconds, a handler spins
                with c06.Watchdog(WATCHDOG):
                    srv.loop(pending)
            except srvkit.Stuck:
                raise
            except c06.Hang:
                self.loop_alive = False
                self.loop_exc = ("Hang", "loop", "a handler never came back")
                raise srvkit.Stuck("the request loop did not come back within %d s: a handler spins" % WATCHDOG)
            except BaseException as x:
                self.loop_alive = False
                where = "loop"
                for fr in traceback.extract_tb(x.__traceback__):
                    if fr.name in ("denyConnection", "_handleConnection", "handleRequest", "events", "_handshake",
                                   "_housekeeping", "register", "unregister"):
                        where = fr.name if where in ("loop", "events") else where
                self.loop_exc = (type(x).__name__, where, str(x)[:200])
                x = None
        finally:
            srv.sock = self.real_sock

    def connect(self, idx):
        """the peer connects and sends nothing yet (thread server: a worker is taken if one is free)"""
        s = self.sock(idx)
        if idx in self.started or not self.loop_alive:
            return
        if self.servertype == "thread" and not self.pool_full():
            self.started[idx] = True
            self.listener.queue.append(s)
            self._run_loop()
            self._wait_thread(idx)

    def deliver(self, idx, data, ending=None, gone=False):
        s = self.sock(idx)
        first = idx not in self.started
        s.feed(data)
        if gone:
            s.gone = True
        if ending:
            s.end(ending)
        if first:
            if not self.loop_alive:
                return
            self.started[idx] = True
            self.listener.queue.append(s)
        if self.servertype == "thread":
            if first:
                self._run_loop()
            if idx in self.jobs:
                try:
                    self._wait_thread(idx)
                except srvkit.Stuck:
                    self.spun = True
                    raise
            self.settle_pool()
            self.housekeep()
        elif self.loop_alive:
            self._run_loop()
        self._wait_oneway()

    def housekeep(self):
        """thread server: one pass of the housekeeper thread (it calls daemon._housekeeping() every few seconds: any moment
        between two deliveries is one at which it may run; the multiplex loop calls it itself after every round of events).
        An exception ends the housekeeper thread, not the request loop: recorded, no further passes."""
        if self.housekeeper_died is None:
            try:
                self.daemon._housekeeping()
            except Exception as x:
                self.housekeeper_died = repr(x)

    def stream_id(self, idx):
        """the id of the item stream the daemon opened last on connection idx (STRM annotation of its reply), or None"""
        from Pyro5 import protocol
        if idx >= len(self.socks):
            return None
        data = bytes(self.socks[idx].sent)
        pos, found = 0, None
        while pos + 40 <= len(data):
            hdr = data[pos:pos + 40]
            dsz = int.from_bytes(hdr[12:16], "big")
            asz = int.from_bytes(hdr[16:20], "big")
            m = protocol.ReceivingMessage(hdr, data[pos + 40:pos + 40 + dsz + asz])
            if "STRM" in m.annotations:
                found = bytes(m.annotations["STRM"])
            pos += 40 + dsz + asz
        return found

    def settle_pool(self):
        """wait until every finished job's worker has told the pool (Worker.run: notify_done after the job)"""
        if self.servertype != "thread":
            return True
        if self.unsettled:
            return False
        pool = self.daemon.transportServer.pool
        t0 = time.time()
        while True:
            want = sum(1 for d in self.jobs.values() if not d.is_set())
            if len(pool.busy) == want:
                return True
            if time.time() - t0 > SETTLE:
                self.unsettled = True           # a worker that finished its job never told the pool
                return False
            time.sleep(0.0003)

    def outbound(self):
        """connects the process made to the trap endpoints since this rig exists: (address kind, thread)"""
        return [("blackhole" if a == self.trap.blackhole else "closed-port", t) for a, t in self.trap.attempts[self.trap_mark:]]

    def accounting(self):
        if self.servertype == "thread":
            p = self.daemon.transportServer.pool
            return {"busy": len(p.busy), "idle": len(p.idle)}
        regs = sorted(getattr(getattr(c, "sock", None), "index", -1) for c in self.selector.map.values()
                      if c is not self.listener)
        return {"registered": regs}

    def close(self):
        srv = self.daemon.transportServer
        if self.servertype == "thread":
            srv._selector = self.real_acceptsel
        else:
            try:
                self.selector.unregister(self.listener)
            except KeyError:
                pass
        # teardown only: Pool.close() sleeps 0.1 s before joining its workers; the workers are signalled already
        from Pyro5 import svr_threads
        real_time = svr_threads.time

        class NoSleep:
            def __getattr__(self, name):
                return getattr(real_time, name)

            def sleep(self, s):
                pass
        svr_threads.time = NoSleep()
        if self.spun:
            kill_spinners()
            time.sleep(0.05)
        registered = [self.Target] + [v for v in self.daemon.objectsById.values() if isinstance(v, type)] \
            + [type(v) for v in self.daemon.objectsById.values()]
        try:
            super().close()
        finally:
            svr_threads.time = real_time
            forget_types(registered)
            if self.servertype == "thread":
                self.real_acceptsel.close()      # SocketServer_Threadpool.close() never closes its accept selector (an epoll fd)


class Trap:
    """harness-owned endpoints a hostile payload can point the daemon at: a listening socket that never answers (a connection
    made to it is held silently for HOLD seconds, then dropped - the harness does not wait for real timeouts) and a port on
    which nothing listens.  Every connect() the process makes to one of them is recorded by an audit hook: the daemon must
    not connect out on behalf of a peer."""
    HOLD = 0.15
    instance = None

    def __init__(self):
        self.attempts = []
        self.armed = False
        self.listener = socket.socket(socket.AF_INET, socket.SOCK_STREAM)
        self.listener.bind(("127.0.0.1", 0))
        self.listener.listen(64)
        self.blackhole = self.listener.getsockname()
        s = socket.socket(socket.AF_INET, socket.SOCK_STREAM)
        s.bind(("127.0.0.1", 0))
        self.closed = s.getsockname()
        s.close()
        self.accepted = 0
        threading.Thread(target=self._serve, daemon=True, name="c05-trap").start()
        import sys

        def hook(event, args):
            if self.armed and event == "socket.connect":
                addr = args[1]
                if isinstance(addr, tuple) and tuple(addr[:2]) in (self.blackhole, self.closed):
                    self.attempts.append((tuple(addr[:2]), threading.current_thread().name))
        sys.addaudithook(hook)

    def _serve(self):
        while True:
            try:
                c, _ = self.listener.accept()
            except OSError:
                return
            self.accepted += 1
            threading.Thread(target=self._hold, args=(c,), daemon=True).start()

    def _hold(self, c):
        time.sleep(self.HOLD)
        try:
            c.close()
        except OSError:
            pass

    @classmethod
    def get(cls):
        if cls.instance is None:
            cls.instance = Trap()
        return cls.instance


class _Slots:
    __slots__ = ("a",)                      # the slot is never set: reading it raises AttributeError


class _NoState:
    def __getstate__(self):
        raise RuntimeError("no state")


def poison_value(kind):
    if kind == "slots":
        return _Slots()
    if kind == "getstate":
        return _NoState()
    x = []                                   # "deep": RecursionError under json, ValueError elsewhere
    for _ in range(5000):
        x = [x]
    return x


def kill_spinners(prefixes=("Pyro-Worker",)):
    """a handler that spins (never blocks) would burn a CPU for the rest of the run: make it raise SystemExit"""
    import ctypes
    import sys
    frames = sys._current_frames()
    n = 0
    for t in threading.enumerate():
        if t is threading.current_thread() or not t.name.startswith(prefixes) or not t.is_alive():
            continue
        fr = frames.get(t.ident)
        if fr is None or fr.f_code.co_filename.endswith("threading.py") or fr.f_code.co_filename.endswith("srvkit.py"):
            continue                         # waiting, not spinning
        ctypes.pythonapi.PyThreadState_SetAsyncExc(ctypes.c_ulong(t.ident), ctypes.py_object(SystemExit))
        n += 1
    return n


def forget_types(classes):
    """Daemon.register() adds a per-type serializer hook for every registered class and never removes it; serpent walks
    that registry on every dumps, so thousands of short-lived daemons would make each run slower than the one before"""
    import serpent
    from Pyro5 import serializers, server
    for c in set(classes):
        if c in (server.DaemonObject, type, object):
            continue
        serpent.unregister_class(c)
        for only_exposed in (True, False):
            server._reset_exposed_members(c, only_exposed)      # module-level cache keyed by the class
        for attr in ("_pyroDaemon", "_pyroId"):
            if attr in vars(c):
                try:
                    delattr(c, attr)
                except (AttributeError, TypeError):
                    pass
        for ser in (serializers.JsonSerializer, serializers.MsgpackSerializer):
            for name, val in vars(ser).items():
                if name.endswith("__type_replacements") and isinstance(val, dict):
                    val.pop(c, None)
