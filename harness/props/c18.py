"""C18 — thread pool: each connection served once or refused; workers stay bounded."""
import ast
import json
import os
import threading

import common
import sched as S
from props import c18_real as R

ID = "C18"
LEAN_MODEL_TARGETS = ["drv_c18"]
LEAN_PROOF_TARGETS = ["PyroProps.C18", "PyroProps.C18Src"]
AUDIT_FILES = ["PyroModel/Lock.lean", "PyroModel/Pool.lean", "PyroModel/Gen/C18.lean", "PyroProofs/Lock.lean",
               "PyroProofs/Pool.lean", "PyroProofs/PoolProbe.lean", "PyroModel/PoolConn.lean", "PyroProofs/PoolConn.lean",
               "PyroProps/C18.lean", "PyroModel/PoolSrc.lean", "PyroModel/LockSkeleton.lean", "PyroModel/Gen/C18Src.lean",
               "PyroProps/C18Src.lean"]
THEOREMS = ["Pyro.C18.C18_gen_shape_ok", "Pyro.C18.C18_gen_source", "Pyro.C18.C18_gen_behaviour", "Pyro.C18.C18_methods_atomic",
            "Pyro.C18.C18_bounded", "Pyro.C18.C18_once_or_refused", "Pyro.C18.C18_refused_iff_full",
            "Pyro.C18.C18_no_lost_wakeup", "Pyro.C18.C18_pending_runs", "Pyro.C18.C18_close",
            "Pyro.C18.C18_close_exits", "Pyro.C18.C18_race_overlimit", "Pyro.C18.C18_race_close",
            "Pyro.C18.C18_gen_conn", "Pyro.C18.C18_conn_closed", "Pyro.C18.C18_refusal_bounded",
            "Pyro.Lock.atomic", "Pyro.Lock.book",
            "Pyro.C18.C18_process_translated", "Pyro.C18.C18_notify_translated", "Pyro.C18.C18_close_translated",
            "Pyro.C18.C18_source_run", "Pyro.C18.C18_source_bounded", "Pyro.C18.C18_source_refused_iff_full",
            "Pyro.C18.C18_source_once_or_refused", "Pyro.C18.C18_source_close", "Pyro.C18.C18_source_locked",
            "Pyro.LockSkeleton.allLocked_sound"]
SUITES = ["sequential", "schedules", "connection"]
RULE = ("(a) sequential: generated op lists (submit / let job k end normally or by raising / close) for pool sizes 1<=min<=max<=3 run on the REAL Pool "
        "with real Worker threads under the deterministic scheduler; after every op the workers are run to rest under a seeded "
        "random interleaving and |idle|, |busy|, closed, per-job (accepted by which worker | refused full | refused closed, "
        "times run, ended) and per-worker state are compared with the model; (b) schedules: small scenarios (pool sizes 1..2, "
        "<=3 jobs quick; accept-loop thread + optional second thread closing the pool / ending jobs) explored at the granularity "
        "of every set/flag/event/lock operation: bounded-preemption DFS (2 quick / 3 thorough) in seeded random order, then seeded "
        "random schedules; every final state must be one the coarse model reaches under some interleaving, and the oracle checks "
        "the property directly at every scheduling point. non-trivial = a run with >= 2 context switches between pool threads "
        "or a sequential list with >= 1 accepted job; distinct = distinct (scenario, schedule) / op list; (c) oracle only: "
        "sequential histories in which Thread.start() of a new worker fails (RuntimeError) — the pool must be as before; "
        "(d) connection: generated scripts (handshake ok/refused/raising, 0..8 served requests then one of the 5 ways a request "
        "ends, disconnect hook ok/raising; refusing handshake ok/raising; accept step with COMMTIMEOUT set or not and pool full "
        "or not) run on the REAL ClientConnectionJob / denyConnection / SocketServer_Threadpool.events with in-memory fakes: "
        "the sequence of effects on the connection's socket vs the model, and the oracle: closed exactly once as the last effect, "
        "hook once, no exception out, timeout set before the refusing handshake reads")
ASSUMPTIONS = ["single set/attribute operations are atomic (GIL)",
               "preemption matters only at accesses of Pool.idle/busy/closed, Worker.job_available, Pool.count_lock, sleep and join",
               "the OS scheduler is replaced by the enumerated / random schedules",
               "'worker threads' = members of idle+busy (a retiring thread may overlap a fresh one until it returns from run)"]
TRUSTED = ["harness/sched.py + harness/props/c18_real.py (deterministic scheduler; shimmed threading/time/set in svr_threads)"]

SRC = "Pyro5/svr_threads.py"
SHARED_DATA = ("idle", "busy", "closed")
BLOCKING = ("join", "wait", "sleep", "acquire")


# ------------------------------------------------------------------------------------------------------
# A: extractor
# ------------------------------------------------------------------------------------------------------
def _lean_str(s):
    return '"' + s.replace("\\", "\\\\").replace('"', '\\"') + '"'


def _is_log(st):
    return (isinstance(st, ast.Expr) and isinstance(st.value, ast.Call) and isinstance(st.value.func, ast.Attribute)
            and isinstance(st.value.func.value, ast.Name) and st.value.func.value.id == "log")


def _flat(stmts, depth=0):
    """statement skeleton of a body: one string per statement, indentation = nesting depth; log calls, docstrings dropped"""
    out = []
    pad = " " * depth
    for st in stmts:
        if _is_log(st):
            continue
        if isinstance(st, ast.Expr) and isinstance(st.value, ast.Constant) and isinstance(st.value.value, str):
            continue
        if isinstance(st, ast.If):
            out.append(pad + "if " + ast.unparse(st.test) + ":")
            out += _flat(st.body, depth + 1)
            if st.orelse:
                out.append(pad + "else:")
                out += _flat(st.orelse, depth + 1)
        elif isinstance(st, ast.While):
            out.append(pad + "while " + ast.unparse(st.test) + ":")
            out += _flat(st.body, depth + 1)
            if st.orelse:
                raise ValueError("while-else")
        elif isinstance(st, ast.For):
            out.append(pad + "for " + ast.unparse(st.target) + " in " + ast.unparse(st.iter) + ":")
            out += _flat(st.body, depth + 1)
            if st.orelse:
                raise ValueError("for-else")
        elif isinstance(st, ast.With):
            out.append(pad + "with " + ", ".join(ast.unparse(i) for i in st.items) + ":")
            out += _flat(st.body, depth + 1)
        elif isinstance(st, ast.Try):
            out.append(pad + "try:")
            out += _flat(st.body, depth + 1)
            for hd in st.handlers:
                out.append(pad + "except " + (ast.unparse(hd.type) if hd.type else "") + ":")
                out += _flat(hd.body, depth + 1)
            if st.orelse:
                out.append(pad + "else:")
                out += _flat(st.orelse, depth + 1)
            if st.finalbody:
                out.append(pad + "finally:")
                out += _flat(st.finalbody, depth + 1)
        elif isinstance(st, ast.Raise):
            exc = st.exc
            if isinstance(exc, ast.Call):
                exc = exc.func
            out.append(pad + "raise " + (ast.unparse(exc) if exc is not None else ""))
        elif isinstance(st, (ast.Assign, ast.AugAssign, ast.Expr, ast.Return, ast.Break, ast.Continue, ast.Pass)):
            out.append(pad + ast.unparse(st))
        else:
            raise ValueError("unrecognised statement %s" % type(st).__name__)
    return out


class _Effects:
    """
    The sequence of EFFECTS of a Worker method on the worker's shared fields, in evaluation order, with private helper
    methods of the class expanded in place: wait / clear / set on `job_available`, reads and writes of the job slot,
    the call of the job, `notify_done`, the loop and its exit condition, the try/except frame.  Local variable names,
    helper names, docstrings, type hints, log calls and the spelling of the loop (`while True: ... if c: break` or
    `while helper():`) do not show; the ORDER of the effects does.  Anything not understood is emitted literally
    ("?..."), which can only make the obligation fail, never pass.
    """

    def __init__(self, methods):
        self.methods = methods
        self.out = []

    @staticmethod
    def neg(v):
        return v[4:] if v.startswith("not ") else "not " + v

    def expr(self, node, env, stack):
        if isinstance(node, ast.Constant):
            return repr(node.value)
        if isinstance(node, ast.Name):
            return env.get(node.id, node.id)
        if isinstance(node, ast.Attribute):
            base = self.expr(node.value, env, stack)
            if base == "self":
                if node.attr == "job":
                    self.out.append("read-slot")
                    return "slot"
                if node.attr == "job_available":
                    return "event"
                if node.attr == "pool":
                    return "pool"
                return "self." + node.attr
            return base + "." + node.attr
        if isinstance(node, ast.Compare) and len(node.ops) == 1:
            l = self.expr(node.left, env, stack)
            r = self.expr(node.comparators[0], env, stack)
            op = node.ops[0]
            if isinstance(op, (ast.Is, ast.Eq)) and r == "None":
                return "isnone(%s)" % l
            if isinstance(op, (ast.IsNot, ast.NotEq)) and r == "None":
                return "not isnone(%s)" % l
            return "(%s %s %s)" % (l, type(op).__name__, r)
        if isinstance(node, ast.UnaryOp) and isinstance(node.op, ast.Not):
            return self.neg(self.expr(node.operand, env, stack))
        if isinstance(node, ast.BoolOp):
            vals = [self.expr(v, env, stack) for v in node.values]
            return "(" + (" and " if isinstance(node.op, ast.And) else " or ").join(vals) + ")"
        if isinstance(node, ast.Call):
            f = node.func
            if isinstance(f, ast.Attribute) and isinstance(f.value, ast.Name) and f.value.id == "log":
                return "None"                                   # logging is not an effect on the pool
            if isinstance(f, ast.Attribute):
                if isinstance(f.value, ast.Name) and f.value.id == "self" and f.attr == "job":
                    self.out.append("read-slot")
                    args = [self.expr(a, env, stack) for a in node.args]
                    self.out.append("call-job" + ("(%s)" % ",".join(args) if args else ""))
                    return "job-result"
                if isinstance(f.value, ast.Name) and f.value.id == "self" and f.attr in self.methods and f.attr not in stack \
                        and f.attr not in ("run", "process", "start", "join"):
                    return self.inline(self.methods[f.attr], [self.expr(a, env, stack) for a in node.args], stack + (f.attr,))
                base = self.expr(f.value, env, stack)
                args = [self.expr(a, env, stack) for a in node.args] + ["%s=%s" % (k.arg, self.expr(k.value, env, stack)) for k in node.keywords]
                if base == "event" and f.attr in ("wait", "clear", "set", "is_set", "isSet"):
                    self.out.append(f.attr + ("(%s)" % ",".join(args) if args else ""))
                    return "event." + f.attr
                if base == "pool":
                    self.out.append("%s(%s)" % (f.attr, ",".join(args)))
                    return "pool." + f.attr
                self.out.append("?call %s.%s(%s)" % (base, f.attr, ",".join(args)))
                return "?"
            self.out.append("?call " + ast.unparse(node))
            return "?"
        self.out.append("?expr " + ast.unparse(node))
        return "?"

    def inline(self, fn, args, stack):
        params = [a.arg for a in fn.args.args]
        env = {"self": "self"}
        for p_, v in zip(params[1:], args):
            env[p_] = v
        body = [st for st in fn.body]
        ret = "None"
        for i, st in enumerate(body):
            if isinstance(st, ast.Return):
                if i != len(body) - 1:
                    self.out.append("?early-return")
                ret = self.expr(st.value, env, stack) if st.value is not None else "None"
                break
            self.stmt(st, env, stack)
        return ret

    def stmts(self, body, env, stack):
        for st in body:
            self.stmt(st, env, stack)

    def stmt(self, st, env, stack):
        if isinstance(st, ast.Expr):
            if isinstance(st.value, ast.Constant):
                return                                          # docstring
            self.expr(st.value, env, stack)
        elif isinstance(st, (ast.Assign, ast.AnnAssign)):
            value = self.expr(st.value, env, stack) if st.value is not None else "None"
            targets = st.targets if isinstance(st, ast.Assign) else [st.target]
            for t in targets:
                if isinstance(t, ast.Name):
                    env[t.id] = value
                elif isinstance(t, ast.Attribute) and isinstance(t.value, ast.Name) and t.value.id == "self":
                    self.out.append("%s:=%s" % ("slot" if t.attr == "job" else t.attr, value))
                else:
                    self.out.append("?assign " + ast.unparse(t))
        elif isinstance(st, ast.If):
            v = self.expr(st.test, env, stack)
            if len(st.body) == 1 and isinstance(st.body[0], ast.Break) and not st.orelse:
                self.out.append("exit-if " + v)
            else:
                self.out.append("if %s [" % v)
                self.stmts(st.body, env, stack)
                self.out.append("] else [")
                self.stmts(st.orelse, env, stack)
                self.out.append("]")
        elif isinstance(st, ast.While):
            self.out.append("loop[")
            v = self.expr(st.test, env, stack)
            if v != "True":
                self.out.append("exit-if " + self.neg(v))
            self.stmts(st.body, env, stack)
            self.out.append("]")
            if st.orelse:
                self.out.append("?while-else")
        elif isinstance(st, ast.Try):
            self.out.append("try[")
            self.stmts(st.body, env, stack)
            for hd in st.handlers:
                self.out.append("]except %s[" % (ast.unparse(hd.type) if hd.type else ""))
                self.stmts(hd.body, env, stack)
            if st.orelse:
                self.out.append("]else[")
                self.stmts(st.orelse, env, stack)
            if st.finalbody:
                self.out.append("]finally[")
                self.stmts(st.finalbody, env, stack)
            self.out.append("]")
        elif isinstance(st, ast.Break):
            self.out.append("exit")
        elif isinstance(st, ast.Pass):
            pass
        else:
            self.out.append("?stmt " + ast.unparse(st).splitlines()[0])


def _effects(fn, methods):
    e = _Effects(methods)
    params = [a.arg for a in fn.args.args]
    env = {"self": "self"}
    for i, p_ in enumerate(params[1:]):
        env[p_] = "arg%d" % i
    for st in fn.body:
        if isinstance(st, ast.Return):
            e.out.append("return")
            break
        e.stmt(st, env, (fn.name,))
    return e.out


def _shape(fn, methods):
    """(accesses of the shared pool attributes inside `with self.count_lock`, outside, blocking calls inside the lock).
    Calls of other methods of the same class (`self._helper(...)`, `self.num_workers()`, `Pool._helper(...)`) are followed:
    the helper's body counts with the lock state of the call site, so extracting code into a helper changes nothing."""
    inside = outside = blocking = 0

    def visit(node, locked, stack):
        nonlocal inside, outside, blocking
        if isinstance(node, ast.With):
            is_lock = any(isinstance(i.context_expr, ast.Attribute) and i.context_expr.attr == "count_lock"
                          and getattr(i.context_expr.value, "id", None) == "self" for i in node.items)
            for i in node.items:
                visit(i.context_expr, locked, stack)
            for st in node.body:
                visit(st, locked or is_lock, stack)
            return
        if isinstance(node, ast.Attribute) and getattr(node.value, "id", None) in ("self", "Pool", "cls"):
            if node.attr in SHARED_DATA:
                if locked:
                    inside += 1
                else:
                    outside += 1
            elif node.attr in methods and node.attr not in stack and node.attr not in ("process", "notify_done", "close"):
                for st in methods[node.attr].body:
                    visit(st, locked, stack + (node.attr,))
        if locked and isinstance(node, ast.Call) and isinstance(node.func, ast.Attribute) and node.func.attr in BLOCKING:
            blocking += 1
        for ch in ast.iter_child_nodes(node):
            visit(ch, locked, stack)
    for st in fn.body:
        visit(st, False, (fn.name,))
    return inside, outside, blocking


def extract():
    common.repo_on_path()
    from props import c18_probe
    src = open(os.path.join(common.REPO, SRC)).read()
    tree = ast.parse(src)
    classes = {n.name: n for n in tree.body if isinstance(n, ast.ClassDef)}
    pool, worker = classes["Pool"], classes["Worker"]
    pm = {f.name: f for f in pool.body if isinstance(f, ast.FunctionDef)}
    wm = {f.name: f for f in worker.body if isinstance(f, ast.FunctionDef)}
    for need in ("__init__", "process", "notify_done", "close", "num_workers"):
        if need not in pm:
            raise ValueError("Pool.%s not found" % need)
    for need in ("process", "run"):
        if need not in wm:
            raise ValueError("Worker.%s not found" % need)
    rows, blocking = [], 0
    for name in ("process", "notify_done", "close"):
        i, o, b = _shape(pm[name], pm)
        rows.append('("%s", %d, %d)' % (name, i, o))
        blocking += b
    # who else touches the pool's sets / flag / a worker's event?  (any use of these attributes outside Pool / Worker)
    foreign = 0
    for cls in classes.values():
        if cls.name in ("Pool", "Worker"):
            continue
        for node in ast.walk(cls):
            if isinstance(node, ast.Attribute) and node.attr in ("idle", "busy", "closed", "job_available", "count_lock"):
                foreign += 1
    from Pyro5 import config
    pr = c18_probe.probe()
    facts = pr["facts"]
    from props import c18_conn
    cn = c18_conn.probe_tables()

    from props import c18_tr
    import Pyro5.svr_threads as svr_mod
    src_err = None
    try:
        src_text = c18_tr.generate(svr_mod, tree)
    except c18_tr.Untranslatable as e:
        src_err = e
    else:
        common.write_if_changed(os.path.join(common.LEAN, "PyroModel", "Gen", "C18Src.lean"), src_text)

    def lst(name, items):
        return "def %s : List String := [\n  %s]\n" % (name, ",\n  ".join(_lean_str(x) for x in items))

    def tab(name, doc, rows_):
        return "/-- %s -/\ndef %s : List (List (List Nat)) := %s\n" % (doc, name, c18_probe.lean_rows(rows_))
    main = ("-- GENERATED by harness/props/c18.py + c18_probe.py from Pyro5/svr_threads.py — do not edit\n"
            "namespace Pyro.Gen.C18\n"
            "/-- (Pool method, accesses of self.idle / self.busy / self.closed lexically inside `with self.count_lock:`,\n"
            "    accesses outside); helper methods of Pool called from these methods are expanded at the call site -/\n"
            "def poolShape : List (String × Nat × Nat) := [%s]\n"
            "/-- which threading factory built Pool.count_lock (observed by constructing pools) -/\n"
            "def lockKind : String := \"%s\"\n"
            "/-- calls of .join / .wait / sleep / .acquire lexically inside the lock (helpers expanded), plus such calls\n"
            "    observed with the lock held while the methods were probed -/\n"
            "def blockingInsideLock : Nat := %d\n"
            "/-- Worker.join() calls without a timeout observed while probing Pool.close on every small state -/\n"
            "def untimedJoins : Nat := %d\n"
            "/-- accesses of idle / busy / closed observed WITHOUT the lock held while probing process / notify_done / close -/\n"
            "def unlockedAccesses : Nat := %d\n"
            "/-- uses of idle / busy / closed / job_available / count_lock in other classes of the module -/\n"
            "def foreignAccesses : Nat := %d\n"
            "def defaultMin : Nat := %d\n"
            "def defaultMax : Nat := %d\n"
            % (", ".join(rows), facts["lockKind"], blocking + facts["blockingInsideLock"], facts["untimedJoins"],
               facts["unlockedAccesses"], foreign, config.THREADPOOL_SIZE_MIN, config.THREADPOOL_SIZE)
            + "/-- effect sequences of the Worker (harness/props/c18.py `_Effects`): effects on the event, the job slot and the pool in\n"
              "    evaluation order, private helpers of the class expanded in place; the ORDER is the concurrency-relevant fact -/\n"
            + lst("workerProcess", _effects(wm["process"], wm))
            + lst("workerRun", _effects(wm["run"], wm))
            + "/-! behaviour tables: the real methods called on every small pool state (encoding: harness/props/c18_probe.py) -/\n"
            + tab("initTable", "Pool() for sizes 0..3 x 0..3: [[min,max],[result,|idle|,|busy|,closed,lock exists before the first worker starts,workers started]]", pr["init"])
            + tab("processTable", "Pool.process(job)", pr["process"])
            + tab("startFailTable", "Pool.process(job) when Thread.start() raises RuntimeError", pr["startfail"])
            + tab("notifyTable", "Pool.notify_done(worker)", pr["notify"])
            + tab("closeTable", "Pool.close()", pr["close"])
            + "/-! the life of one connection: the real ClientConnectionJob / events() run on fakes (harness/props/c18_conn.py);\n"
              "    effects: 1 settimeout, 2 handshake, 3 refusing handshake, 4 request, 5 disconnect hook, 6 close, 7 accept, 8 handed to the pool -/\n"
            + tab("connJobTable", "ClientConnectionJob.__call__: [[handshake 0 ok/1 refused/2 raises, hook raises, COMMTIMEOUT set, exception came out], requests (0 served, 1 ConnectionClosed, 2 OSError, 3 Security, 4 Timeout, 5 other), effects]", cn["job"])
            + tab("connDenyTable", "denyConnection: [[refusing handshake raises, COMMTIMEOUT set, exception came out], [], effects]", cn["deny"])
            + tab("acceptTable", "events(): [[COMMTIMEOUT set, pool full, refusing handshake raises, exception came out, socket had its timeout when the refusing handshake read], [], effects]", cn["accept"])
            + "end Pyro.Gen.C18\n")
    if src_err is not None:
        # the facts are still regenerated; the transcription (Gen/C18Src.lean) is stale: a broken tie
        common.write_if_changed(os.path.join(common.LEAN, "PyroModel", "Gen", "C18.lean"), main)
        raise ValueError("Pool.process / notify_done / close left the translatable fragment (harness/props/c18_tr.py): %s" % src_err)
    return main


# ------------------------------------------------------------------------------------------------------
# canonical snapshots (same grammar as Driver/C18.lean `snap`)
# ------------------------------------------------------------------------------------------------------
def job_str(run, k, rec):
    st = rec["status"]
    if st == "a":
        w = R.holder_of(run, k)
        st = "a%s" % ("?" if w is None else w)
    elif st not in ("n", "x"):
        st = "?"
    return "%sr%de%d" % (st, rec["runs"], rec["ended"])


def snap_str(run, fin=None):
    f = fin or getattr(run, "final", None) or R.snapshot(run)     # `final` = the cut taken at rest, before the harness tears the run down
    return "c%d i%d b%d J %s W %s" % (1 if f["closed"] else 0, f["idle"], f["busy"],
                                      " ".join(job_str(run, k, rec) for k, rec in enumerate(run.jobs)),
                                      " ".join(f["workers"]))


def prog_tok(prog):
    # "X k" (job k ends by raising) is "F k" for the model: Worker.run treats a raising job like a returning one
    return ",".join("S" if op[0] == "S" else "C" if op[0] == "C" else "F%d" % op[1] for op in prog) or "-"


def gen_fault_ops(rng):
    """sequential histories in which some submissions hit a failing Thread.start()"""
    _, _, tail = gen_ops(rng)
    mx = rng.choice([2, 2, 3])
    mn = rng.randint(1, mx - 1)
    # `min` submissions occupy the initial workers, so the next one needs a NEW worker: that start fails
    ops = [("S",)] * mn + [("Z",)] + [("Z",) if (op[0] == "S" and rng.random() < 0.3) else op for op in tail]
    return mn, mx, ops


def prog_show(prog):
    return ",".join(op[0] if len(op) == 1 else "%s%d" % (op[0], op[1]) for op in prog) or "-"


# ------------------------------------------------------------------------------------------------------
# D: the property, checked on the real pool at every scheduling point and at rest
# ------------------------------------------------------------------------------------------------------
class Violation(Exception):
    def __init__(self, sig, desc):
        Exception.__init__(self, desc)
        self.sig, self.desc = sig, desc


def monitor(run, sc):
    """called before every scheduling decision: all managed threads are parked, the cut is consistent"""
    pool = getattr(run, "pool", None)
    if pool is None or getattr(run, "violation", None):
        return
    d = pool.__dict__
    idle, busy = d["idle"], d["busy"]
    ni, nb = set.__len__(idle), set.__len__(busy)
    if run.in_closed_pool:
        run.violation = ("job-in-closed-pool", run.in_closed_pool + " (close() had already set the closed flag)")
        return
    if ni + nb > run.mx:
        run.violation = ("over-limit", "%d workers (idle %d + busy %d) with THREADPOOL_SIZE=%d" % (ni + nb, ni, nb, run.mx))
        return
    if set(set.__iter__(idle)) & set(set.__iter__(busy)):
        run.violation = ("idle-and-busy", "a worker is in idle and busy at the same time")
        return
    if run.in_process is not None:
        rec = run.jobs[run.in_process]
        rec["max_active"] = max(rec["max_active"], R.active_workers(run))
    for k, rec in enumerate(run.jobs):
        if rec["runs"] > 1:
            run.violation = ("ran-twice", "job %d was executed %d times" % (k, rec["runs"]))
            return
        if rec["status"] in ("n", "x") and rec["runs"]:
            run.violation = ("refused-but-ran", "job %d was refused (%s) and executed" % (k, rec["status"]))
            return
        if rec["status"] == "n" and rec["max_active"] < run.mx and not rec.get("start_failed"):
            # sound reading of "refused only when all workers are busy" for overlapping calls: at some instant of the
            # process() call THREADPOOL_SIZE worker threads were alive and not waiting for a job
            run.violation = ("refused-not-full", "job %d refused with NoFreeWorkersError although at most %d of %d workers "
                             "were occupied at any instant of the call (len(busy) = %d when it raised)"
                             % (k, rec["max_active"], run.mx, rec["busy_at_refusal"]))
            return
        if rec["status"] == "a" and rec["after_close"]:
            run.violation = ("job-after-close", "job %d was accepted by process() after close() had returned" % k)
            return
        if rec["status"].startswith("E:") and not (rec.get("start_failed") and rec["status"] == "E:RuntimeError"):
            # (a RuntimeError of Thread.start() injected by the harness is the environment's fault and comes out unchanged)
            run.violation = ("process-internal-error", "process() failed with %s" % rec["status"][2:])
            return


def judge_rest(run):
    """the property at rest (nothing can move any more).  Returns (signature, description) or None."""
    v = getattr(run, "violation", None)
    if v:
        return v
    f = run.final
    if run.outcome not in ("ok", "deadlock"):
        return ("no-rest", "the run did not come to rest: %s" % run.outcome)
    if run.close_error:
        return ("close-internal-error", "close() failed with %s" % run.close_error)
    if not all(f["prog_done"]):
        return ("caller-blocked", "a thread calling process()/close() is blocked forever")
    for k, rec in enumerate(run.jobs):
        if rec["status"] == "a" and rec["runs"] == 0:
            return ("job-lost", "job %d was accepted by process() and is never executed (workers at rest: %s)"
                    % (k, " ".join(f["workers"])))
        if rec["status"] == "?":
            return ("job-unanswered", "process() of job %d neither returned nor raised" % k)
    if run.in_closed_pool:
        return ("job-in-closed-pool", run.in_closed_pool + " (close() had already set the closed flag)")
    finished = {op[1] for p in run.progs for op in p if op[0] in ("F", "X")}
    for i, ph in enumerate(f["workers"]):
        if ph == "P":
            return ("no-rest", "worker %d is neither blocked nor finished at rest" % i)
        if ph.startswith("R") and int(ph[1:]) in finished:
            return ("job-stuck", "worker %d is still inside job %s although it was allowed to end" % (i, ph[1:]))
        if ph == "I" and f["closed"]:
            return ("worker-stuck-after-close", "worker %d waits for a job forever in a closed pool" % i)
    if not f["closed"]:
        waiting = sum(1 for ph in f["workers"] if ph == "I")
        if waiting != f["idle"]:
            return ("idle-count", "%d workers wait for a job but len(idle) = %d" % (waiting, f["idle"]))
        running = sum(1 for ph in f["workers"] if ph.startswith("R"))
        if running != f["busy"]:
            return ("busy-count", "%d workers are inside a job but len(busy) = %d" % (running, f["busy"]))
    return None


# ------------------------------------------------------------------------------------------------------
# scenarios and exploration
# ------------------------------------------------------------------------------------------------------
SCENARIOS = [
    # (min, max, [program A, (program B)])
    (1, 1, [[("S",), ("F", 0), ("S",)]]),
    (1, 1, [[("S",), ("C",)]]),
    (1, 1, [[("S",), ("F", 0), ("C",)]]),
    (1, 2, [[("S",), ("S",), ("F", 0), ("S",)]]),
    (1, 1, [[("S",), ("F", 0), ("S",)], [("C",)]]),
    (2, 2, [[("S",), ("S",), ("F", 0), ("F", 1), ("S",)]]),
    (1, 2, [[("S",), ("S",), ("F", 0), ("F", 1), ("C",)]]),
    (1, 2, [[("S",), ("S",), ("S",)], [("F", 0), ("F", 1), ("C",)]]),
    (1, 1, [[("S",)], [("C",)]]),                                     # submit racing with close
    (1, 2, [[("S",), ("S",)], [("C",)]]),
    (1, 1, [[("S",), ("X", 0), ("S",)]]),                             # a job that ends by raising
    (1, 2, [[("S",), ("S",), ("X", 0), ("F", 1), ("S",)], [("C",)]]),
]


def gen_scenario(rng, big):
    mx = rng.choice([1, 1, 2, 2, 3] if big else [1, 2, 2])
    mn = rng.randint(1, mx)
    njobs = rng.randint(1, 4 if big else 3)
    a, b = [], []
    submitted = 0
    two = rng.random() < 0.4
    for _ in range(rng.randint(2, 6 if big else 5)):
        r = rng.random()
        tgt = b if (two and rng.random() < 0.4) else a
        if r < 0.5 and submitted < njobs:
            a.append(("S",))
            submitted += 1
        elif r < 0.85 and submitted:
            tgt.append((rng.choice("FFX"), rng.randrange(submitted)))
        elif r < 0.95:
            tgt.append(("C",))
    if not any(op[0] == "S" for op in a):
        a.insert(0, ("S",))
    progs = [a] + ([b] if b else [])
    return mn, mx, progs


def random_order_explore(run_once, rng, max_preemptions, max_runs):
    """sched.explore with the frontier visited in seeded random order (spreads a small budget over the whole tree)"""
    stack = [[]]
    seen = 0
    while stack and seen < max_runs:
        prefix = stack.pop(rng.randrange(len(stack))) if seen else stack.pop()
        sc, outcome = run_once(S.replay_policy(prefix))
        seen += 1
        yield prefix, sc, outcome
        chosen = [c[1] for c in sc.choices]
        for i in range(len(prefix), len(sc.choices)):
            runnable, pick, prev = sc.choices[i]
            for alt in runnable:
                if alt == pick:
                    continue
                newp = chosen[:i] + [alt]
                pre = 0
                for j, tid in enumerate(newp):
                    rj, _, pj = sc.choices[j]
                    if pj is not None and tid != pj and pj in rj:
                        pre += 1
                if pre <= max_preemptions:
                    stack.append(newp)


def run_case(policy, mn, mx, progs):
    run = R.run_scenario(policy, mn, mx, [[tuple(op) for op in p] for p in progs], monitor=monitor)
    return run.sched, run


def case_of(mn, mx, progs, sc):
    return {"min": mn, "max": mx, "progs": [[list(op) for op in p] for p in progs], "schedule": [t for t, _ in sc.trace]}


def explore_scenario(ctx, mn, mx, progs, bound, max_runs, nrandom, rng, model_outs, found_sigs):
    """explore one scenario; ctx.fail on the first violation of each signature; ctx.mismatch for final states the model lacks"""
    mism = 0

    def handle(sc, run):
        nonlocal mism
        ctx.evaluations += 1
        switches = sum(1 for a, b in zip(sc.trace, sc.trace[1:]) if a[0] != b[0])
        if switches >= 2:
            ctx.nontriv((mn, mx, repr(progs), tuple(t for t, _ in sc.trace)))
        ctx.count("sched:" + run.outcome)
        bad = judge_rest(run)
        if bad:
            sig = "pool-race:" + bad[0]
            if sig not in found_sigs:
                found_sigs.add(sig)
                ctx.fail(sig, "%s; pool min=%d max=%d, programs %s, schedule %r"
                         % (bad[1], mn, mx, " | ".join(prog_show(p) for p in progs), [t for t, _ in sc.trace]),
                         case_of(mn, mx, progs, sc))
        s = snap_str(run)
        if model_outs is not None and getattr(run, "violation", None) is None and run.outcome in ("ok", "deadlock"):
            ctx.corr_cases += 1
            if s not in model_outs and mism < 2:
                mism += 1
                ctx.mismatch("schedules", case_of(mn, mx, progs, sc), s, "not among the %d final states of the model" % len(model_outs))
        return bad, s
    for prefix, sc, run in random_order_explore(lambda pol: run_case(pol, mn, mx, progs), rng, bound, max_runs):
        bad, s = handle(sc, run)
        if len(ctx.samples) < 5 and len(sc.trace) > 20 and rng.random() < 0.03:
            ctx.sample({"min": mn, "max": mx, "programs": [prog_show(p) for p in progs],
                        "schedule": [t for t, _ in sc.trace], "final": s})
    for _ in range(nrandom):
        sc, run = run_case(S.random_policy(rng, rng.choice([0.2, 0.5, 0.8])), mn, mx, progs)
        handle(sc, run)


def model_outcomes(scens):
    lines = ["outs %d %d %s %s" % (mn, mx, prog_tok(progs[0]), prog_tok(progs[1]) if len(progs) > 1 else "-")
             for mn, mx, progs in scens]
    outs = common.run_driver("drv_c18", lines)
    res = []
    for o in outs:
        if o in ("fuel", "bad-op"):
            res.append(None)
        else:
            res.append(set(x.strip() for x in o.split(" ; ")))
    return res


def corpus_cases():
    d = os.path.join(common.VERIF, "corpus", "C18")
    out = []
    if os.path.isdir(d):
        for f in sorted(os.listdir(d)):
            if f.endswith(".json"):
                out.append((f, json.load(open(os.path.join(d, f)))))
    return out


def scenario_list(ctx):
    rng = ctx.sub_rng("scenarios")
    scens = [(mn, mx, [list(p) for p in progs]) for mn, mx, progs in SCENARIOS]
    for _ in range(ctx.n(6, 30)):
        scens.append(gen_scenario(rng, ctx.tier == "thorough"))
    return scens


def _schedules(ctx, with_model):
    rng = ctx.sub_rng("sched")
    found = set()
    # corpus first: replay each stored witness schedule on the real code
    for name, c in corpus_cases():
        if "schedule" not in c:
            continue
        sc, run = run_case(S.replay_policy(c["schedule"]), c["min"], c["max"], c["progs"])
        ctx.evaluations += 1
        bad = judge_rest(run)
        if bad and "pool-race:" + bad[0] not in found:
            found.add("pool-race:" + bad[0])
            ctx.fail("pool-race:" + bad[0], "corpus witness %s reproduces: %s" % (name, bad[1]), c)
    scens = scenario_list(ctx)
    outs = [None] * len(scens)
    if with_model:
        try:
            outs = model_outcomes(scens)
        except RuntimeError as e:
            ctx.mismatch("schedules", {"driver": "drv_c18"}, "driver unavailable", repr(e)[:200])
    bound = 3 if ctx.tier == "thorough" else 2
    for (mn, mx, progs), mo in zip(scens, outs):
        explore_scenario(ctx, mn, mx, progs, bound, ctx.n(140, 1500), ctx.n(30, 300), rng, mo, found)


# ------------------------------------------------------------------------------------------------------
# C (a): sequential correspondence
# ------------------------------------------------------------------------------------------------------
def settle_policy(rng, snaps, run_box):
    """client thread 0 moves on to its next op only when no worker can move; everything else in seeded random order"""
    def policy(sc, runnable):
        t0 = sc.threads[0]
        at_boundary = t0.state == "parked" and isinstance(t0.label, tuple) and t0.label[0] == "op"
        cands = [t for t in runnable if not (t == 0 and at_boundary)]
        if cands:
            if sc.last in cands and rng.random() < 0.6:
                return sc.last
            return rng.choice(cands)
        # only the client is runnable, at an op boundary: the pool is at rest — snapshot
        snaps.append(snap_str(run_box[0]))
        return 0
    return policy


def gen_ops(rng):
    mx = rng.choice([1, 1, 2, 2, 3])
    mn = rng.randint(1, mx)
    ops = []
    submitted = 0
    closed = False
    for _ in range(rng.choice([2, 4, 7, 10])):
        r = rng.random()
        if r < 0.5:
            ops.append(("S",))
            submitted += 1
        elif r < 0.92 and submitted:
            ops.append((rng.choice("FFX"), rng.randrange(submitted)))
        elif r < 0.97 and (not closed or rng.random() < 0.3) and len(ops) >= 2:
            ops.append(("C",))
            closed = True
        else:
            ops.append(("S",))
            submitted += 1
    return mn, mx, ops


def _sequential(ctx, n):
    rng = ctx.sub_rng("seq")
    lines, reals, cases = [], [], []
    for _ in range(n):
        mn, mx, ops = gen_ops(rng)
        snaps, box = [], [None]
        pol = settle_policy(rng, snaps, box)

        # run_scenario creates the Run object itself; the policy needs it for snapshots -> late binding through the monitor
        def mon(run, sc):
            box[0] = run
            monitor(run, sc)
        run = R.run_scenario(pol, mn, mx, [ops], monitor=mon)
        ctx.evaluations += 1
        toks = []
        k = 0
        for op in ops:
            if op[0] == "S":
                w = R.holder_of(run, k) if k < len(run.jobs) and run.jobs[k]["status"] == "a" else None
                toks += ["S", "-" if w is None else str(w)]
                k += 1
            elif op[0] in ("F", "X"):
                toks += ["F", str(op[1])]
            else:
                toks += ["C"]
        lines.append("seq %d %d %d %s" % (mn, mx, len(ops), " ".join(toks)))
        reals.append(" ; ".join(snaps))
        cases.append({"min": mn, "max": mx, "ops": [list(o) for o in ops]})
        if any(j["status"] == "a" for j in run.jobs):
            ctx.nontriv(lines[-1])
        ctx.count("seq:len%d" % len(ops))
        for j in run.jobs:
            ctx.count("seq:job:" + j["status"][:1])
        bad = judge_rest(run)
        if bad:
            ctx.fail("pool-seq:" + bad[0], "sequential use: %s; pool min=%d max=%d ops %s" % (bad[1], mn, mx, prog_show(ops)),
                     {"min": mn, "max": mx, "progs": [[list(o) for o in ops]], "schedule": [t for t, _ in run.sched.trace]})
    outs = common.run_driver("drv_c18", lines)
    ctx.corr_cases += len(lines)
    bad = 0
    for l, r, o, c in zip(lines, reals, outs, cases):
        if r != o:
            bad += 1
            if bad <= 5:
                ctx.mismatch("sequential", dict(c, line=l), r, o)
    if len(ctx.samples) < 6 and lines:
        ctx.sample({"line": lines[0], "snapshots": reals[0]})


# ------------------------------------------------------------------------------------------------------
# the refusal path end to end: real daemon, THREADPOOL_SIZE=1, second client must read CONNECTFAIL "no free workers"
# ------------------------------------------------------------------------------------------------------
def _start_faults(ctx, n):
    """oracle only (the model has no failing Thread.start): after a submission whose new worker could not be started the
    pool must be as before — nobody counted busy who is not running, later jobs accepted / refused as usual, close() works"""
    rng = ctx.sub_rng("startfault")
    for _ in range(n):
        mn, mx, ops = gen_fault_ops(rng)
        if rng.random() < 0.5 and not any(op[0] == "C" for op in ops):
            ops.append(("C",))
        snaps, box = [], [None]
        pol = settle_policy(rng, snaps, box)

        def mon(run, sc):
            box[0] = run
            monitor(run, sc)
        run = R.run_scenario(pol, mn, mx, [ops], monitor=mon)
        ctx.evaluations += 1
        ctx.count("startfault:hit" if any(j.get("start_failed") for j in run.jobs) else "startfault:no-new-worker-needed")
        if any(j.get("start_failed") for j in run.jobs):
            ctx.nontriv(("startfault", mn, mx, repr(ops)))
        bad = judge_rest(run)
        if bad:
            ctx.fail("pool-fault:" + bad[0], "after a failing Thread.start(): %s; pool min=%d max=%d ops %s"
                     % (bad[1], mn, mx, prog_show(ops)),
                     {"min": mn, "max": mx, "progs": [[list(o) for o in ops]], "schedule": [t for t, _ in run.sched.trace]})
            return


# ------------------------------------------------------------------------------------------------------
# one connection: the real job / accept step on fakes (suite "connection" + oracle clauses of C18_conn_closed / C18_refusal_bounded)
# ------------------------------------------------------------------------------------------------------
def conn_oracle(kind, case, trace, info):
    """(signature, description) if the real code violates the property on this script, else None"""
    if info.get("raised"):
        return ("conn:%s-raises" % kind, "%s came out of %s" % (info["raised"], kind))
    if kind in ("job", "deny") or (kind == "accept" and case["full"]):
        if info.get("closed", 0) < 1 or 6 not in trace:
            return ("conn:not-closed", "the connection's socket is not closed when the server stops serving it (%s)" % kind)
        if trace[-1] != 6 or trace.count(6) != 1:
            return ("conn:close-not-last", "socket closed %d times / used after close: effects %r" % (trace.count(6), trace))
    if kind == "job" and case["hs"] == 0 and trace.count(5) != 1:
        return ("conn:hook-count", "disconnect hook ran %d times for one connection" % trace.count(5))
    if kind == "accept":
        if case["full"]:
            if 3 not in trace:
                return ("conn:refused-silently", "pool full and the client got no refusing handshake")
            if case["ct"] and info.get("timeout_at_handshake") is None:
                return ("conn:refusal-unbounded", "COMMTIMEOUT is configured but the socket has no timeout when the accept loop starts "
                                                  "to read the refused client's handshake: a silent client parks the accept loop")
        elif 8 not in trace:
            return ("conn:not-handed-over", "pool has room and the connection was not handed to it")
    return None


def _connection(ctx, n, with_model=True):
    from props import c18_conn as C
    rng = ctx.sub_rng("conn")
    lines, reals, cases = [], [], []
    seen = set()
    # corpus first
    for name, c in corpus_cases():
        if "conn" in c:
            cases.append(c["conn"])
    for _ in range(n):
        r = rng.random()
        if r < 0.7:
            hs = rng.choice([0, 0, 0, 1, 2])
            reqs = ([0] * rng.choice([0, 0, 1, 2, 5, 8]) + [rng.randint(1, 5)]) if hs == 0 else []
            cases.append({"kind": "job", "hs": hs, "hook": rng.randint(0, 1), "reqs": reqs, "ct": rng.randint(0, 1)})
        elif r < 0.8:
            cases.append({"kind": "deny", "raises": rng.randint(0, 1), "ct": rng.randint(0, 1)})
        else:
            cases.append({"kind": "accept", "ct": rng.randint(0, 1), "full": rng.randint(0, 1), "raises": rng.randint(0, 1)})
    for c in cases:
        k = c["kind"]
        if k == "job":
            trace, info = C.run_job(C.HS[c["hs"]], [C.REQ[i] for i in c["reqs"]], bool(c["hook"]), bool(c["ct"]))
            line = "job %d %d %s" % (c["hs"], c["hook"], " ".join(map(str, c["reqs"])))
            real = (",".join(map(str, trace)) or "-") + " done"
        elif k == "deny":
            trace, info = C.run_deny(bool(c["raises"]), bool(c["ct"]))
            line = "deny %d" % c["raises"]
            real = ",".join(map(str, trace)) or "-"
        else:
            trace, info = C.run_accept(bool(c["ct"]), bool(c["full"]), bool(c["raises"]))
            line = "accept %d %d %d" % (c["ct"], c["full"], c["raises"])
            real = ",".join(map(str, trace)) or "-"
        ctx.evaluations += 1
        ctx.count("conn:" + k)
        if len(trace) > 2:
            ctx.nontriv("conn " + line)
        bad = conn_oracle(k, c, trace, info)
        if bad and bad[0] not in seen:
            seen.add(bad[0])
            ctx.fail(bad[0], "%s; script: %s (effects %r)" % (bad[1], line, trace), {"conn": c})
        lines.append(line.strip())
        reals.append(real)
    if with_model:
        outs = common.run_driver("drv_c18", lines)
        ctx.corr_cases += len(lines)
        nbad = 0
        for l, r, o, c in zip(lines, reals, outs, cases):
            if r != o:
                nbad += 1
                if nbad <= 3:
                    ctx.mismatch("connection", {"conn": c, "line": l}, r, o)


def refusal_path(ctx):
    common.repo_on_path()
    import socket
    from Pyro5 import config, protocol, serializers, server, svr_threads, core, errors
    saved = {k: getattr(config, k) for k in ("THREADPOOL_SIZE", "THREADPOOL_SIZE_MIN", "SERVERTYPE", "COMMTIMEOUT", "POLLTIMEOUT")}
    config.THREADPOOL_SIZE = 1
    config.THREADPOOL_SIZE_MIN = 1
    config.SERVERTYPE = "thread"
    config.COMMTIMEOUT = 5.0
    config.POLLTIMEOUT = 5.0
    daemon = None
    socks = []
    try:
        daemon = server.Daemon(host="127.0.0.1", port=0)
        srv = daemon.transportServer
        if not isinstance(srv, svr_threads.SocketServer_Threadpool):
            raise RuntimeError("not the thread pool server")
        done = threading.Event()
        orig_notify = srv.pool.notify_done

        def notify(worker):
            orig_notify(worker)
            done.set()
        srv.pool.notify_done = notify
        ser = serializers.serializers["serpent"]

        def connect():
            s = socket.create_connection(srv.sock.getsockname()[:2], timeout=5.0)
            socks.append(s)
            data = ser.dumps({"handshake": "hello", "object": core.DAEMON_NAME})
            msg = protocol.SendingMessage(protocol.MSG_CONNECT, 0, 1, ser.serializer_id, data)
            s.sendall(msg.data)
            return s

        def reply(s):
            from Pyro5 import socketutil
            conn = socketutil.SocketConnection(s)
            socks.append(conn)          # keep it alive: SocketConnection closes its socket when collected
            try:
                msg = protocol.recv_stub(conn, [protocol.MSG_CONNECTOK, protocol.MSG_CONNECTFAIL])
            except (errors.PyroError, OSError) as e:      # closed without an answer
                return None, "no reply: " + type(e).__name__
            payload = serializers.serializers_by_id[msg.serializer_id].loads(msg.data)
            return msg.type, payload
        c1 = connect()
        srv.events([srv.sock])
        t1, _ = reply(c1)                      # the only worker now serves client 1
        ctx.evaluations += 1
        if t1 != protocol.MSG_CONNECTOK:
            ctx.fail("refusal-path:first-client", "first client of a 1-worker pool was not accepted", {"step": "client1"})
            return
        c2 = connect()
        srv.events([srv.sock])
        t2, why = reply(c2)
        ctx.evaluations += 1
        ctx.count("refusal-path:" + ("fail" if t2 == protocol.MSG_CONNECTFAIL else "ok"))
        if t2 != protocol.MSG_CONNECTFAIL or "no free workers" not in str(why):
            ctx.fail("refusal-path:reply", "second client of a full 1-worker pool got type %r / %r instead of CONNECTFAIL 'no free workers'"
                     % (t2, why), {"step": "client2"})
        if srv.pool.num_workers() > 1:
            ctx.fail("refusal-path:workers", "pool grew beyond THREADPOOL_SIZE=1", {"step": "client2"})
        # the same refusal as seen through the real client class, with every serializer a client may be configured with
        # (the server answers a refusal with the marshal serializer, whatever the client sent)
        from Pyro5 import client
        uri = daemon.uriFor(core.DAEMON_NAME)
        for sername in sorted(serializers.serializers):
            acc = threading.Thread(target=lambda: srv.events([srv.sock]), daemon=True)
            acc.start()
            prox = client.Proxy(uri)
            prox._pyroSerializer = sername
            try:
                prox._pyroBind()
                seen = ("connected", "")
            except errors.CommunicationError as e:
                seen = ("CommunicationError", str(e))
            except Exception as e:      # noqa
                seen = (type(e).__name__, str(e)[:120])
            acc.join(10.0)
            ctx.evaluations += 1
            ctx.count("refusal-path:proxy:" + seen[0])
            if seen[0] != "CommunicationError" or "no free workers" not in seen[1]:
                ctx.fail("refusal-path:client", "a %s Proxy refused by a full 1-worker pool got %s %r instead of a CommunicationError that "
                         "says 'no free workers'" % (sername, seen[0], seen[1]), {"step": "proxy", "serializer": sername})
            elif prox._pyroConnection is not None:
                ctx.fail("refusal-path:client", "a refused %s Proxy keeps a connection" % sername, {"step": "proxy", "serializer": sername})
            try:
                prox._pyroRelease()
            except Exception:
                pass
        done.clear()
        c1.close()
        if not done.wait(10.0):
            ctx.fail("refusal-path:worker-not-returned", "the worker did not return to the pool after its client left", {"step": "client1-close"})
            return
        c3 = connect()
        srv.events([srv.sock])
        t3, _ = reply(c3)
        ctx.evaluations += 1
        if t3 != protocol.MSG_CONNECTOK:
            ctx.fail("refusal-path:after-free", "a client connecting after the worker became free was refused", {"step": "client3"})
        ctx.nontriv("refusal-path")
    finally:
        for s in socks:
            try:
                s.close()
            except OSError:
                pass
        if daemon is not None:
            try:
                daemon.close()
            except Exception:
                pass
        for k, v in saved.items():
            setattr(config, k, v)


# ------------------------------------------------------------------------------------------------------
def correspondence(ctx):
    common.repo_on_path()
    _sequential(ctx, ctx.n(200, 3000))
    _start_faults(ctx, ctx.n(60, 800))
    _connection(ctx, ctx.n(300, 6000))
    ctx._c18_done = True
    _schedules(ctx, with_model=True)


def oracle(ctx):
    common.repo_on_path()
    refusal_path(ctx)
    if getattr(ctx, "_c18_done", False) and not ctx.search_mode:
        return        # the exploration in `correspondence` already ran the property oracle on every schedule
    _start_faults(ctx, ctx.n(60, 800))
    _connection(ctx, ctx.n(300, 6000), with_model=False)
    _schedules(ctx, with_model=False)


def replay(ctx, case):
    f = case.get("failing_input") or {}
    c = f.get("case") or {}
    if str(f.get("signature", "")).startswith("refusal-path"):
        refusal_path(ctx)
        for x in ctx.failures:
            print("VIOLATION reproduced: %s — %s" % (x["signature"], x["desc"]))
        if not ctx.failures:
            print("not reproduced (second client of a full 1-worker pool read CONNECTFAIL 'no free workers')")
        return 1 if ctx.failures else 0
    if "conn" in c:
        common.repo_on_path()
        from props import c18_conn as C
        cc = c["conn"]
        if cc["kind"] == "job":
            trace, info = C.run_job(C.HS[cc["hs"]], [C.REQ[i] for i in cc["reqs"]], bool(cc["hook"]), bool(cc["ct"]))
        elif cc["kind"] == "deny":
            trace, info = C.run_deny(bool(cc["raises"]), bool(cc["ct"]))
        else:
            trace, info = C.run_accept(bool(cc["ct"]), bool(cc["full"]), bool(cc["raises"]))
        print("script", cc)
        print("effects on the socket (1 settimeout 2 handshake 3 refusing handshake 4 request 5 hook 6 close 7 accept 8 handed over):", trace)
        print("info", info)
        bad = conn_oracle(cc["kind"], cc, trace, info)
        print("VIOLATION reproduced: %s — %s" % bad if bad else "not reproduced (the property holds on this script)")
        return 1 if bad else 0
    if "schedule" not in c:
        print(json.dumps(case.get("no_longer_checks")))
        print(json.dumps(f))
        return 1 if f else 0
    common.repo_on_path()
    sc, run = run_case(S.replay_policy(c["schedule"]), c["min"], c["max"], c["progs"])
    print("pool min=%d max=%d programs %s" % (c["min"], c["max"], " | ".join(prog_show([tuple(o) for o in p]) for p in c["progs"])))
    print("schedule", c["schedule"])
    print("trace", [(t, l) for t, l in sc.trace])
    print("events", run.events)
    print("at rest:", snap_str(run), "outcome", run.outcome)
    bad = judge_rest(run)
    print("VIOLATION reproduced: %s — %s" % bad if bad else "not reproduced (the property holds on this schedule)")
    return 1 if bad else 0
