"""
C09 extractor: facts about Daemon._getInstance / behavior / register / SocketConnection -> Lean (PyroModel/Gen/C09.lean).

Two kinds of facts, chosen so that behaviour-preserving refactorings do not change them:

* PROBES of the real objects (no source reading): `behavior` called on its whole abstract argument table, `register` on an
  undecorated / decorated / inheriting class, `SocketConnection` construction and `close` (plain, keep_open, failing
  shutdown/close), two `Daemon` objects compared for shared tables / locks, the type of the single-instance lock.
* NORMALISED control structure of `_getInstance` and its nested creation helper: logging, docstrings, comments and type hints are
  dropped; parameters and locals (also the helper's name) are renamed canonically (a<i> parameters, v<i> function-level locals in
  binding order, f<i> nested helpers, x<i> locals of a branch in order of first occurrence); `if c: A(terminating)` followed by
  `B` is the same as `if c: A else: B`; `elif` is a nested `if`; a negated test with two non-empty branches is flipped
  (`if not c: A else: B` == `if c: B else: A`, likewise `is not` / `!=` / `not in`); a statement that ends both branches
  of an `if` is moved behind it; `x = E; return x` is `return E`; a local bound once to `self.<attr>` is that attribute;
  exception message texts are dropped.
  The operator of the "no instance yet" test is reported separately (it is the model's parameter); when the syntactic form is
  not recognised it is determined by probing the real `_getInstance` with a falsy stored instance.
* The lock shape (which functions touch `_pyroInstances`, inside / outside `with <the single-instance lock>`; a local that is
  bound exactly once to `self.create_single_instance_lock` counts as the lock) — this one is lexical by nature.
* Private helpers: a nested def, a private (static/class/plain) method of the same class and a private module function are the
  same thing.  Calls of them from `_getInstance` are written f<i>(...) and the creation helper's body is taken from wherever it
  lives; for the lock shape and the "who touches the tables" lists a private helper all of whose call sites are in the anchor
  functions (`Daemon.__init__`, `Daemon._getInstance`, `SocketConnection.__init__`, `SocketConnection.close`) or in other such
  helpers is expanded into its callers (with the lock state of the call site) and has no row of its own.
"""
import ast
import copy
import json
import os
import threading

import common


# ---------------------------------------------------------------------------------------------------------
# normalised statement structure
# ---------------------------------------------------------------------------------------------------------
def _is_log(st):
    return (isinstance(st, ast.Expr) and isinstance(st.value, ast.Call) and isinstance(st.value.func, ast.Attribute)
            and isinstance(st.value.func.value, ast.Name) and st.value.func.value.id in ("log", "logging", "logger"))


def _is_doc(st):
    return isinstance(st, ast.Expr) and isinstance(st.value, ast.Constant) and isinstance(st.value.value, str)


def _skip(st):
    return _is_log(st) or _is_doc(st) or isinstance(st, ast.Pass)


def terminates(nodes):
    """does a normalised statement list always leave the function (return / raise)?"""
    if not nodes:
        return False
    last = nodes[-1]
    if last[0] == "stmt":
        return isinstance(last[1], (ast.Return, ast.Raise))
    if last[0] == "if":
        return terminates(last[2]) and terminates(last[3])
    if last[0] == "with":
        return terminates(last[2])
    if last[0] == "try":
        return terminates(last[1]) and all(terminates(h) for _, h in last[2])
    return False


_NEG = {ast.IsNot: ast.Is, ast.NotEq: ast.Eq, ast.NotIn: ast.In}


def _negated(test):
    """test == not t2  ->  t2, else None"""
    if isinstance(test, ast.UnaryOp) and isinstance(test.op, ast.Not):
        return test.operand
    if isinstance(test, ast.Compare) and len(test.ops) == 1 and type(test.ops[0]) in _NEG:
        t = copy.deepcopy(test)
        t.ops = [_NEG[type(test.ops[0])]()]
        return t
    return None


def _can_fold(node):
    return node[0] == "if" and terminates(node[2]) and (not node[3] or (len(node[3]) == 1 and _can_fold(node[3][0])))


def _fold(node, rest):
    """put `rest` (what follows an if whose taken branches all leave the function) into the innermost missing else"""
    if not node[3]:
        return ("if", node[1], node[2], rest)
    return ("if", node[1], node[2], [_fold(node[3][0], rest)])


def _canon_if(node):
    """flip a negated test when both branches are non-empty; move a common last statement behind the if"""
    _, test, then, els = node
    pos = _negated(test)
    if pos is not None and then and els:
        test, then, els = pos, els, then              # `if not c: A else: B` == `if c: B else: A`
    tail = []
    while then and els and then[-1][0] == "stmt" and els[-1][0] == "stmt" \
            and ast.dump(then[-1][1]) == ast.dump(els[-1][1]):
        tail.insert(0, then[-1])                      # the same last statement on both sides comes after the if
        then, els = then[:-1], els[:-1]
    if not then and els:
        neg = _negated(test)
        test = neg if neg is not None else ast.UnaryOp(op=ast.Not(), operand=test)
        then, els = els, []
    return [("if", test, then, els)] + tail


def _canon(nodes):
    out = []
    for nd in nodes:
        if nd[0] == "if":
            out.extend(_canon_if(("if", nd[1], _canon(nd[2]), _canon(nd[3]))))
        elif nd[0] == "with":
            out.append(("with", nd[1], _canon(nd[2])))
        elif nd[0] == "try":
            out.append(("try", _canon(nd[1]), [(t, _canon(h)) for t, h in nd[2]]))
        else:
            out.append(nd)
    return _inline_returns(out)


def norm(stmts):
    """ast statement list -> normalised tree: ("stmt", node) | ("if", test, then, else) | ("with", items, body) |
    ("try", body, [(type, handler)]) | ("def", node) | ("?", kind)"""
    return _canon(_raw(stmts))


def _raw(stmts):
    out = []
    stmts = [s for s in stmts if not _skip(s)]
    for i, st in enumerate(stmts):
        if isinstance(st, ast.If):
            node = ("if", st.test, _raw(st.body), _raw(st.orelse))
            rest = stmts[i + 1:]
            if rest and _can_fold(node):
                out.append(_fold(node, _raw(rest)))    # early return == else branch
                return out
            out.append(node)
        elif isinstance(st, ast.With):
            out.append(("with", st.items, _raw(st.body)))
        elif isinstance(st, ast.Try):
            if st.orelse or st.finalbody:
                out.append(("?", "try-else-or-finally"))
            else:
                out.append(("try", _raw(st.body), [(h.type, _raw(h.body)) for h in st.handlers]))
        elif isinstance(st, (ast.FunctionDef, ast.ClassDef)):
            out.append(("def", st))
        elif isinstance(st, (ast.For, ast.While, ast.AsyncFor)) or (hasattr(ast, "Match") and isinstance(st, ast.Match)):
            out.append(("?", type(st).__name__))
        else:
            out.append(("stmt", st))
    return out


def _inline_returns(nodes):
    """`x = E; return x`  ==  `return E`"""
    out = []
    for nd in nodes:
        if out and nd[0] == "stmt" and isinstance(nd[1], ast.Return) and isinstance(nd[1].value, ast.Name) \
                and out[-1][0] == "stmt" and isinstance(out[-1][1], ast.Assign) and len(out[-1][1].targets) == 1 \
                and isinstance(out[-1][1].targets[0], ast.Name) and out[-1][1].targets[0].id == nd[1].value.id:
            out[-1] = ("stmt", ast.Return(value=out[-1][1].value))
        else:
            out.append(nd)
    return out


class Renamer(ast.NodeTransformer):
    """fixed: name -> canonical name; every other name in `local_names` gets x<i> in order of first occurrence"""

    def __init__(self, fixed, local_names):
        self.fixed = dict(fixed)
        self.local_names = set(local_names)
        self.n = 0

    def name(self, ident):
        if ident in self.fixed:
            return self.fixed[ident]
        if ident in self.local_names:
            self.fixed[ident] = "x%d" % self.n
            self.n += 1
            return self.fixed[ident]
        return ident

    def visit_Name(self, node):
        return ast.copy_location(ast.Name(id=self.name(node.id), ctx=node.ctx), node)

    def text(self, node):
        return ast.unparse(self.visit(copy.deepcopy(node)))


def show(nodes, rn, test_hook=None):
    out = []
    for nd in nodes:
        if nd[0] == "stmt":
            st = nd[1]
            if isinstance(st, ast.Raise) and isinstance(st.exc, ast.Call):
                out.append("raise " + rn.text(st.exc.func))      # the message text is not a fact we depend on
            elif isinstance(st, ast.AnnAssign) and st.value is not None:
                out.append("%s = %s" % (rn.text(st.target), rn.text(st.value)))   # type hints dropped
            else:
                out.append(rn.text(st))
        elif nd[0] == "if":
            t = test_hook(nd[1]) if test_hook else None
            cond = t or rn.text(nd[1])
            s = "if(%s)[%s]" % (cond, show(nd[2], rn, test_hook))
            if nd[3]:
                s += "else[%s]" % show(nd[3], rn, test_hook)
            out.append(s)
        elif nd[0] == "with":
            out.append("with(%s)[%s]" % (", ".join(rn.text(i.context_expr) for i in nd[1]), show(nd[2], rn, test_hook)))
        elif nd[0] == "try":
            s = "try[%s]" % show(nd[1], rn, test_hook)
            for typ, h in nd[2]:
                s += "except(%s)[%s]" % (rn.text(typ) if typ is not None else "", show(h, rn, test_hook))
            out.append(s)
        elif nd[0] == "def":
            out.append("def(%s)" % rn.name(nd[1].name))
        else:
            out.append("?" + nd[1])
    return ";".join(out)


def inline_attribute_aliases(fn):
    """a local bound exactly once to `self.<attr>` (e.g. `lock = self.create_single_instance_lock`) is that attribute"""
    fn = copy.deepcopy(fn)
    binds = {}
    for n in ast.walk(fn):
        if isinstance(n, ast.Name) and isinstance(n.ctx, ast.Store):
            binds[n.id] = binds.get(n.id, 0) + 1
    alias = {}
    for n in ast.walk(fn):
        if isinstance(n, ast.Assign) and len(n.targets) == 1 and isinstance(n.targets[0], ast.Name) \
                and binds.get(n.targets[0].id) == 1 and isinstance(n.value, ast.Attribute) \
                and isinstance(n.value.value, ast.Name) and n.value.value.id == "self":
            alias[n.targets[0].id] = n.value

    class T(ast.NodeTransformer):
        def visit_Assign(self, node):
            if len(node.targets) == 1 and isinstance(node.targets[0], ast.Name) and node.targets[0].id in alias:
                return None
            return self.generic_visit(node)

        def visit_Name(self, node):
            if isinstance(node.ctx, ast.Load) and node.id in alias:
                return copy.deepcopy(alias[node.id])
            return node
    return T().visit(fn) if alias else fn


def local_names_of(fn):
    """names bound in fn's own scope (not in nested functions), in binding order; parameters first"""
    params = [a.arg for a in fn.args.posonlyargs + fn.args.args + fn.args.kwonlyargs]
    found = []

    def visit(n):
        for ch in ast.iter_child_nodes(n):
            if isinstance(ch, (ast.FunctionDef, ast.Lambda, ast.ClassDef)):
                if not isinstance(ch, ast.Lambda) and ch.name not in found:
                    found.append(ch.name)
                continue
            if isinstance(ch, ast.Name) and isinstance(ch.ctx, ast.Store) and ch.id not in found:
                found.append(ch.id)
            visit(ch)
    visit(fn)
    return params, [n for n in found if n not in params]


def classify_instance_test(test, var):
    """the operator deciding that the looked-up instance `var` is missing"""
    if isinstance(test, ast.UnaryOp) and isinstance(test.op, ast.Not) and isinstance(test.operand, ast.Name) \
            and test.operand.id == var:
        return "not"
    if isinstance(test, ast.Compare) and isinstance(test.left, ast.Name) and test.left.id == var \
            and len(test.ops) == 1 and isinstance(test.ops[0], ast.Is) and isinstance(test.comparators[0], ast.Constant) \
            and test.comparators[0].value is None:
        return "is None"
    return None


def lean_str(s):
    return json.dumps(s, ensure_ascii=True)


def lean_strs(l):
    return "[" + ", ".join(lean_str(x) for x in l) + "]"


def lean_bool(b):
    return "true" if b else "false"


# ---------------------------------------------------------------------------------------------------------
# probes of the real objects
# ---------------------------------------------------------------------------------------------------------
class _FalsyCallable:
    def __bool__(self):
        return False

    def __call__(self, clazz):
        return clazz()


MODE_ARGS = ["single", "session", "percall", "bogus", 42]          # codes 0..4 (3 = a string outside the three names, 4 = not a string)


def _creator_args():
    return [None, (lambda clazz: clazz()), _FalsyCallable(), 17, 0]   # codes 0..4: None / callable / falsy callable / truthy non-callable / falsy non-callable


def _stored_code(cls, creator_arg=None, check_identity=False):
    m, c = cls._pyroInstancing
    if check_identity and c is not creator_arg:
        return 9
    mi = ("single", "session", "percall").index(m) if m in ("single", "session", "percall") else 3
    return 100 + 10 * mi + (0 if c is None else 1 if c else 2)


def probe_behavior():
    """behavior(mode, creator)(target) over the whole abstract table -> rows (isClass, mode code, creator code, result code)
    result: 100 + 10*mode + creator-as-createInstance-sees-it (0 None / 1 truthy / 2 falsy) | 1 TypeError | 2 ValueError | 3 SyntaxError | 9 other"""
    from Pyro5 import server
    rows = []
    for is_class in (True, False):
        for mi, mval in enumerate(MODE_ARGS):
            for ci, cval in enumerate(_creator_args()):
                target = type("B", (object,), {}) if is_class else (lambda: None)
                try:
                    res = server.behavior(instance_mode=mval, instance_creator=cval)(target)
                    code = _stored_code(res, cval, True) if res is target else 9
                except TypeError:
                    code = 1
                except ValueError:
                    code = 2
                except SyntaxError:
                    code = 3
                except Exception:
                    code = 9
                rows.append((is_class, mi, ci, code))
    try:
        default = _stored_code(server.behavior()(type("B", (object,), {})))
    except Exception:
        default = 9
    return rows, default


def _quiet_daemon():
    from Pyro5 import config, server
    old = config.SERVERTYPE
    config.SERVERTYPE = "multiplex"
    try:
        return server.Daemon(host="127.0.0.1", port=0)
    finally:
        config.SERVERTYPE = old


def _forget_types(classes):
    import serpent
    from Pyro5 import serializers
    for cls in classes:
        try:
            serpent.unregister_class(cls)
        except Exception:
            pass
        for ser in (serializers.JsonSerializer, serializers.MsgpackSerializer):
            d = getattr(ser, "_%s__type_replacements" % ser.__name__, None)
            if isinstance(d, dict):
                d.pop(cls, None)


def probe_register():
    """what `register` leaves in `_pyroInstancing`: undecorated class / decorated class / undecorated subclass of a decorated one"""
    from Pyro5 import server
    d = _quiet_daemon()
    made = []
    try:
        plain = type("P", (object,), {})
        deco = server.behavior(instance_mode="percall", instance_creator=lambda c: c())(type("Q", (object,), {}))
        base = server.behavior(instance_mode="single")(type("R", (object,), {}))
        sub = type("S", (base,), {})
        made = [plain, deco, base, sub]
        out = []
        for i, cls in enumerate((plain, deco, sub)):
            try:
                d.register(cls, "c09probe%d" % i)
                out.append(_stored_code(cls))
            except Exception:
                out.append(9)
        return out
    finally:
        _forget_types(made)
        d.close()


class _Sock:
    def __init__(self, bad_shutdown=False, bad_close=False):
        self.bad_shutdown, self.bad_close = bad_shutdown, bad_close

    def shutdown(self, how):
        if self.bad_shutdown:
            raise OSError(107, "not connected")

    def close(self):
        if self.bad_close:
            raise OSError(9, "bad file descriptor")


def probe_connection():
    """-> (a new connection has an empty table of its own, {scenario: table empty after close()})"""
    from Pyro5 import socketutil
    a, b = socketutil.SocketConnection(_Sock()), socketutil.SocketConnection(_Sock())
    fresh = a.pyroInstances == {} and b.pyroInstances == {} and a.pyroInstances is not b.pyroInstances \
        and "pyroInstances" in vars(a)
    res = []
    for name, kw, sock in (("plain", {}, _Sock()), ("keep_open", {"keep_open": True}, _Sock()),
                           ("shutdown-fails", {}, _Sock(bad_shutdown=True)), ("close-fails", {}, _Sock(bad_close=True)),
                           ("both-fail", {}, _Sock(True, True))):
        c = socketutil.SocketConnection(sock, **kw)
        c.pyroInstances[object] = object()
        try:
            c.close()
            res.append((name, len(c.pyroInstances) == 0))
        except Exception:
            res.append((name + ":raised", len(c.pyroInstances) == 0))
        c.keep_open = True          # its __del__ must not do anything more
    a.keep_open = b.keep_open = True
    return fresh, res


def probe_daemons():
    """two Daemon objects: own table, own lock, nothing at class level; kind of the lock"""
    from Pyro5 import server
    d1, d2 = _quiet_daemon(), _quiet_daemon()
    try:
        t1, t2 = getattr(d1, "_pyroInstances", None), getattr(d2, "_pyroInstances", None)
        own_tables = isinstance(t1, dict) and t1 == {} and t2 == {} and t1 is not t2 and "_pyroInstances" in vars(d1)
        lk, lk2 = getattr(d1, "create_single_instance_lock", None), getattr(d2, "create_single_instance_lock", None)
        own_locks = lk is not None and lk is not lk2 and "create_single_instance_lock" in vars(d1)
        class_level = [n for n in ("_pyroInstances", "create_single_instance_lock") if hasattr(server.Daemon, n)]
        kind = "Lock" if type(lk) is type(threading.Lock()) else "RLock" if type(lk) is type(threading.RLock()) \
            else type(lk).__name__
        return own_tables, own_locks, class_level, kind
    finally:
        d1.close()
        d2.close()


def probe_tests():
    """the behaviour of the two lookups on a stored FALSY instance: 'is None' (re-used) | 'not' (re-created) | 'unknown'"""
    from Pyro5 import server, socketutil

    def one(mode):
        d = _quiet_daemon()
        try:
            made = []

            class K:
                truth = False

                def __init__(self):
                    self.t = K.truth
                    made.append(self)

                def __bool__(self):
                    return self.t
            cls = server.behavior(instance_mode=mode)(K)
            conn = socketutil.SocketConnection(_Sock())
            try:
                K.truth = True
                t1 = d._getInstance(cls, conn)
                t2 = d._getInstance(cls, conn)
                if t1 is not t2:
                    return "unknown"
                d._pyroInstances.pop(cls, None)
                conn.pyroInstances.pop(cls, None)
                K.truth = False
                f1 = d._getInstance(cls, conn)
                f2 = d._getInstance(cls, conn)
                return "is None" if f1 is f2 else "not"
            finally:
                conn.keep_open = True
        except Exception:
            return "unknown"
        finally:
            d.close()
    return one("single"), one("session")


# ---------------------------------------------------------------------------------------------------------
def extract():
    common.repo_on_path()
    server_path = os.path.join(common.REPO, "Pyro5", "server.py")
    sock_path = os.path.join(common.REPO, "Pyro5", "socketutil.py")
    tree = ast.parse(open(server_path).read())
    daemon = [n for n in tree.body if isinstance(n, ast.ClassDef) and n.name == "Daemon"][0]
    fns = {n.name: n for n in daemon.body if isinstance(n, ast.FunctionDef)}
    gi = inline_attribute_aliases(fns["_getInstance"])

    # ---- canonical names of _getInstance ----------------------------------------------------
    params, locs = local_names_of(gi)
    fixed = {}
    for i, p in enumerate([p for p in params if p != "self"]):
        fixed[p] = "a%d" % i
    # private helpers of _getInstance: a nested def, a private (static/class/plain) method of Daemon or a private module
    # function are the same thing here; their calls are written f<i>(...) and the first one's body is the creation helper
    nested = {st.name: st for st in gi.body if isinstance(st, ast.FunctionDef)}
    mod_fns = {n.name: n for n in tree.body if isinstance(n, ast.FunctionDef)}
    helpers = []           # (key name used in the rewritten tree, FunctionDef, number of leading self/cls parameters)

    def private(name):
        return name.startswith("_") and not name.startswith("__")

    class CallRewriter(ast.NodeTransformer):
        def visit_Call(self, node):
            self.generic_visit(node)
            f = node.func
            target = None
            if isinstance(f, ast.Name) and f.id in nested:
                target = (f.id, nested[f.id], 0)
            elif isinstance(f, ast.Name) and f.id in mod_fns and private(f.id):
                target = (f.id, mod_fns[f.id], 0)
            elif isinstance(f, ast.Attribute) and isinstance(f.value, ast.Name) and f.value.id in ("self", "cls", daemon.name) \
                    and f.attr in fns and private(f.attr) and f.attr != gi.name:
                h = fns[f.attr]
                static = any(getattr(d, "id", None) == "staticmethod" for d in h.decorator_list)
                target = ("__helper_" + f.attr, h, 0 if static else 1)
            if target is None:
                return node
            if target[0] not in [k for k, _, _ in helpers]:
                helpers.append(target)
            return ast.copy_location(ast.Call(func=ast.Name(id=target[0], ctx=ast.Load()), args=node.args,
                                              keywords=node.keywords), node)
    gi = CallRewriter().visit(gi)
    for i, (key, _, _) in enumerate(helpers):
        fixed[key] = "f%d" % i
    for name in nested:
        fixed.setdefault(name, "f?")           # a nested def that is never called
    body = norm([st for st in gi.body if not isinstance(st, ast.FunctionDef)])
    # the statement(s) before the mode chain bind the function-level locals (mode, creator)
    pre = []
    while body and body[0][0] == "stmt":
        pre.append(body.pop(0)[1])
    # `t = E; a, b = t`  ==  `a, b = E`
    if len(pre) == 2 and all(isinstance(p, ast.Assign) and len(p.targets) == 1 for p in pre) \
            and isinstance(pre[0].targets[0], ast.Name) and isinstance(pre[1].value, ast.Name) \
            and pre[1].value.id == pre[0].targets[0].id \
            and sum(1 for n in ast.walk(gi) if isinstance(n, ast.Name) and n.id == pre[0].targets[0].id) == 2:
        pre = [ast.Assign(targets=pre[1].targets, value=pre[0].value, lineno=0)]
    for st in pre:
        for n in ast.walk(st):
            if isinstance(n, ast.Name) and isinstance(n.ctx, ast.Store) and n.id not in fixed:
                fixed[n.id] = "v%d" % len([v for v in fixed.values() if v.startswith("v")])
    branch_locals = [n for n in locs if n not in fixed]
    unpack = ";".join(Renamer(fixed, []).text(st) for st in pre)
    mode_var = None
    if len(pre) == 1 and isinstance(pre[0], ast.Assign) and isinstance(pre[0].targets[0], ast.Tuple) \
            and isinstance(pre[0].targets[0].elts[0], ast.Name):
        mode_var = pre[0].targets[0].elts[0].id
    if len(body) != 1 or body[0][0] != "if" or mode_var is None:
        raise ValueError("_getInstance: no chain of tests on the instance mode found")

    branches = []          # (mode literal, normalised statements)
    node = body[0]
    while True:
        t = node[1]
        if not (isinstance(t, ast.Compare) and isinstance(t.left, ast.Name) and t.left.id == mode_var
                and len(t.ops) == 1 and isinstance(t.ops[0], ast.Eq) and isinstance(t.comparators[0], ast.Constant)):
            raise ValueError("_getInstance: unexpected mode test " + ast.unparse(t))
        branches.append((t.comparators[0].value, node[2]))
        if len(node[3]) == 1 and node[3][0][0] == "if":
            node = node[3][0]
        else:
            else_body = node[3]
            break
    tests = {}

    def hook_for(mode):
        def hook(test):
            names = {n.id for n in ast.walk(test) if isinstance(n, ast.Name)}
            if len(names) == 1 and next(iter(names)) in branch_locals:
                tests.setdefault(mode, []).append(classify_instance_test(test, next(iter(names))) or "unknown")
                return "TEST"
            return None
        return hook
    shapes = {m: show(b, Renamer(fixed, branch_locals), hook_for(m)) for m, b in branches}
    else_shape = show(else_body, Renamer(fixed, branch_locals))
    probed = None

    def one_test(mode, idx):
        nonlocal probed
        l = tests.get(mode, [])
        if len(l) == 1 and l[0] != "unknown":
            return l[0]
        if probed is None:                 # the spelling is not recognised: ask the real code
            probed = probe_tests()
        return probed[idx]

    # ---- the creation helper ----------------------------------------------------------------
    if len(helpers) != 1:
        create_shape = "unknown: %d private helpers called from _getInstance" % len(helpers)
    else:
        _, hfn, skip = helpers[0]
        hfn = inline_attribute_aliases(hfn)
        hp, hl = local_names_of(hfn)
        hfixed = {p: "a%d" % i for i, p in enumerate(hp[skip:])}
        create_shape = show(norm(hfn.body), Renamer(hfixed, hl))

    # ---- lock shape and table users: private helpers are expanded into the functions that call them ------------
    ANCHORS = {"Daemon.__init__", "Daemon._getInstance", "SocketConnection.__init__", "SocketConnection.close"}
    TABLES = ("_pyroInstances", "pyroInstances")

    def index_module(t):
        idx = {}
        for top in t.body:
            if isinstance(top, ast.ClassDef):
                for st in top.body:
                    if isinstance(st, (ast.FunctionDef, ast.AsyncFunctionDef)):
                        idx["%s.%s" % (top.name, st.name)] = (top.name, st)
            elif isinstance(top, (ast.FunctionDef, ast.AsyncFunctionDef)):
                idx[top.name] = (None, top)
        return idx

    def resolve(call, clsname, idx):
        f = call.func
        if isinstance(f, ast.Attribute) and isinstance(f.value, ast.Name) and clsname and f.value.id in ("self", "cls", clsname):
            q = "%s.%s" % (clsname, f.attr)
            return q if q in idx else None
        if isinstance(f, ast.Name) and f.id in idx:
            return f.id
        return None

    def analyse(t):
        """-> {qualified function: (inside, outside)} of accesses of `._pyroInstances` and the set of functions that mention
        either table, where a private helper all of whose call sites are in anchors (or in such helpers) is expanded into them"""
        idx = index_module(t)
        callsites = {q: [] for q in idx}
        for q, (cn, fn) in idx.items():
            for n in ast.walk(fn):
                if isinstance(n, ast.Call):
                    r = resolve(n, cn, idx)
                    if r is not None and r != q:
                        callsites[r].append(q)
        absorbed = set()
        changed = True
        while changed:
            changed = False
            for q in idx:
                if q in absorbed or q in ANCHORS or not private(q.split(".")[-1]) or not callsites[q]:
                    continue
                if all(c in ANCHORS or c in absorbed for c in callsites[q]):
                    absorbed.add(q)
                    changed = True

        def lock_aliases(fn):
            binds = {}
            for n in ast.walk(fn):
                if isinstance(n, ast.Assign) and len(n.targets) == 1 and isinstance(n.targets[0], ast.Name):
                    binds.setdefault(n.targets[0].id, []).append(n.value)
            return {name for name, vals in binds.items()
                    if len(vals) == 1 and isinstance(vals[0], ast.Attribute) and vals[0].attr == "create_single_instance_lock"
                    and getattr(vals[0].value, "id", None) == "self"}

        def count(q, locked, depth=0):
            cn, fn = idx[q]
            aliases = lock_aliases(fn)
            res = [0, 0, False]        # inside, outside, mentions a table

            def is_lock(e):
                return (isinstance(e, ast.Attribute) and e.attr == "create_single_instance_lock"
                        and getattr(e.value, "id", None) == "self") or (isinstance(e, ast.Name) and e.id in aliases)

            def visit(n, locked):
                if isinstance(n, ast.With):
                    lk = any(is_lock(i.context_expr) for i in n.items)
                    for i in n.items:
                        visit(i.context_expr, locked)
                    for st in n.body:
                        visit(st, locked or lk)
                    return
                if isinstance(n, ast.Attribute) and n.attr in TABLES:
                    res[2] = True
                    if n.attr == "_pyroInstances":
                        res[0 if locked else 1] += 1
                if isinstance(n, ast.Call) and depth < 6:
                    r = resolve(n, cn, idx)
                    if r in absorbed:
                        sub = count(r, locked, depth + 1)
                        res[0] += sub[0]
                        res[1] += sub[1]
                        res[2] = res[2] or sub[2]
                for ch in ast.iter_child_nodes(n):
                    visit(ch, locked)
            for st in fn.body:
                visit(st, locked)
            return res
        rows, mentions = [], []
        for q in idx:
            if q in absorbed:
                continue
            i, o, m = count(q, False)
            if i or o:
                rows.append((q, i, o))
            if m:
                mentions.append(q)
        # class bodies / module level
        for top in t.body:
            body_nodes = [st for st in top.body if not isinstance(st, (ast.FunctionDef, ast.AsyncFunctionDef))] \
                if isinstance(top, ast.ClassDef) else ([] if isinstance(top, (ast.FunctionDef, ast.AsyncFunctionDef)) else [top])
            for st in body_nodes:
                if any(isinstance(x, (ast.Attribute, ast.Name)) and getattr(x, "attr", getattr(x, "id", None)) in TABLES
                       for x in ast.walk(st)):
                    where = "%s.<class body>" % top.name if isinstance(top, ast.ClassDef) else "<module>"
                    rows.append((where, 0, 1))
                    mentions.append(where)
        return rows, mentions, idx
    shape, _, sidx = analyse(tree)
    # who REBINDS the daemon's table / lock attribute (the lock must be one object for the daemon's lifetime, the table is
    # only ever replaced when the object is built)
    def rebinders(attr):
        out = []
        for q, (cn, f) in sidx.items():
            for n in ast.walk(f):
                targets = n.targets if isinstance(n, ast.Assign) else [n.target] if isinstance(n, (ast.AugAssign, ast.AnnAssign)) \
                    else [t for t in n.targets] if isinstance(n, ast.Delete) else []
                flat = []
                for t in targets:
                    flat += list(t.elts) if isinstance(t, (ast.Tuple, ast.List)) else [t]
                if any(isinstance(t, ast.Attribute) and t.attr == attr for t in flat):
                    out.append(q)
                    break
            for n in ast.walk(f):
                if isinstance(n, ast.Call) and getattr(n.func, "id", None) in ("setattr", "delattr") and len(n.args) >= 2 \
                        and isinstance(n.args[1], ast.Constant) and n.args[1].value == attr and q not in out:
                    out.append(q)
        return out
    lock_writers, table_writers = rebinders("create_single_instance_lock"), rebinders("_pyroInstances")
    callers = []
    for q, (cn, f) in sidx.items():
        k = sum(1 for n in ast.walk(f) if isinstance(n, ast.Call) and isinstance(n.func, ast.Attribute)
                and n.func.attr == "_getInstance")
        if k:
            callers.append("%s:%d" % (q, k))

    # ---- who else mentions the two tables -----------------------------------------------------
    users = []
    pkg = os.path.join(common.REPO, "Pyro5")
    for fname in sorted(os.listdir(pkg)):
        if fname.endswith(".py"):
            _, mentions, _ = analyse(ast.parse(open(os.path.join(pkg, fname)).read()))
            users += ["%s:%s" % (fname, q) for q in mentions]

    # ---- probes ---------------------------------------------------------------------------------
    beh_rows, beh_default = probe_behavior()
    reg = probe_register()
    conn_fresh, conn_close = probe_connection()
    own_tables, own_locks, class_level, lock_kind = probe_daemons()

    rows = ", ".join("(%s, %d, %d)" % (lean_str(n), i, o) for n, i, o in shape)
    brows = ", ".join("(%s, %d, %d, %d)" % (lean_bool(a), b, c, d) for a, b, c, d in beh_rows)
    crows = ", ".join("(%s, %s)" % (lean_str(n), lean_bool(b)) for n, b in conn_close)
    return f"""-- GENERATED by harness/props/c09_extract.py from Pyro5/server.py and Pyro5/socketutil.py (source structure + probes of the real objects) — do not edit
namespace Pyro.Gen.C09
/-! normalised structure of `Daemon._getInstance` (a<i> parameters without self, v<i> function-level locals, f<i> nested helper,
    x<i> locals of a branch; logging / docstrings / message texts dropped; early returns folded into else branches) -/
/-- the statements before the chain of mode tests -/
def unpack : String := {lean_str(unpack)}
/-- the string literals the instance mode is compared with, in order -/
def modeBranches : List String := {lean_strs([m for m, _ in branches])}
/-- each branch (the test on the looked-up instance replaced by TEST) -/
def singleShape : String := {lean_str(shapes.get("single", "missing"))}
def sessionShape : String := {lean_str(shapes.get("session", "missing"))}
def percallShape : String := {lean_str(shapes.get("percall", "missing"))}
def elseShape : String := {lean_str(else_shape)}
/-- the operator with which each branch decides that there is no instance yet: "not" | "is None"
    (from the source when the spelling is recognised, otherwise from probing the real `_getInstance` with a falsy instance) -/
def singleTest : String := {lean_str(one_test("single", 0))}
def sessionTest : String := {lean_str(one_test("session", 1))}
/-- the nested creation helper, normalised the same way (a0 = class, a1 = creator) -/
def createShape : String := {lean_str(create_shape)}
/-- (function, accesses of `._pyroInstances` lexically inside `with <the single-instance lock>:`, outside) -/
def instShape : List (String × Nat × Nat) := [{rows}]
/-- functions that rebind `self.create_single_instance_lock` / `self._pyroInstances` (assignment, del, setattr) -/
def lockWriters : List String := {lean_strs(lock_writers)}
def tableWriters : List String := {lean_strs(table_writers)}
/-- functions that call `_getInstance`, with the number of call sites -/
def getInstanceCallers : List String := {lean_strs(callers)}
/-- every function of the package that mentions `.pyroInstances` / `._pyroInstances` -/
def tableUsers : List String := {lean_strs(users)}
/-! probes of the real objects -/
/-- two Daemon objects: each has an empty dict of its own / a lock of its own in its instance dict; names also present on the class -/
def daemonsOwnTables : Bool := {lean_bool(own_tables)}
def daemonsOwnLocks : Bool := {lean_bool(own_locks)}
def daemonClassLevelTables : List String := {lean_strs(class_level)}
def lockKind : String := {lean_str(lock_kind)}
/-- behavior(mode, creator)(target): (target is a class, mode code, creator code, result code)
    mode 0 single 1 session 2 percall 3 other string 4 not a string; creator 0 None 1 callable 2 falsy callable 3 truthy non-callable 4 falsy non-callable;
    result 100 + 10*mode + creator as createInstance will see it (0 None 1 truthy 2 falsy) | 1 TypeError | 2 ValueError | 3 SyntaxError | 9 other -/
def behaviorTable : List (Bool × Nat × Nat × Nat) := [{brows}]
/-- `behavior()` without arguments applied to a class -/
def behaviorDefault : Nat := {beh_default}
/-- `_pyroInstancing` after `Daemon.register` of: an undecorated class, a percall/creator class, an undecorated subclass of a single class -/
def registerProbe : List Nat := {reg}
/-- SocketConnection: a new connection has an empty table of its own; is the table empty after close() in each scenario -/
def connFresh : Bool := {lean_bool(conn_fresh)}
def connClose : List (String × Bool) := [{crows}]
end Pyro.Gen.C09
"""


if __name__ == "__main__":
    print(extract())
