"""C09 extractor: source facts of Daemon._getInstance / behavior / register / SocketConnection -> Lean."""
import ast
import json
import os

import common


def _is_log(st):
    return (isinstance(st, ast.Expr) and isinstance(st.value, ast.Call) and isinstance(st.value.func, ast.Attribute)
            and isinstance(st.value.func.value, ast.Name) and st.value.func.value.id == "log")


def _is_doc(st):
    return isinstance(st, ast.Expr) and isinstance(st.value, ast.Constant) and isinstance(st.value.value, str)


def skel(stmts, test_hook=None):
    """statement skeleton: control structure + unparsed simple statements; logging and docstrings dropped"""
    out = []
    for st in stmts:
        if _is_log(st) or _is_doc(st):
            continue
        if isinstance(st, ast.If):
            t = test_hook(st) if test_hook else None
            s = "if(%s)[%s]" % (t or ast.unparse(st.test), skel(st.body, test_hook))
            if st.orelse:
                s += "else[%s]" % skel(st.orelse, test_hook)
            out.append(s)
        elif isinstance(st, ast.With):
            out.append("with(%s)[%s]" % (", ".join(ast.unparse(i) for i in st.items), skel(st.body, test_hook)))
        elif isinstance(st, ast.Try):
            s = "try[%s]" % skel(st.body, test_hook)
            for h in st.handlers:
                s += "except(%s)[%s]" % (ast.unparse(h.type) if h.type else "", skel(h.body, test_hook))
            if st.orelse or st.finalbody:
                s += "?else-or-finally"
            out.append(s)
        elif isinstance(st, ast.Raise) and isinstance(st.exc, ast.Call):
            out.append("raise " + ast.unparse(st.exc.func))       # the message text is not a fact we depend on
        elif isinstance(st, (ast.FunctionDef, ast.ClassDef)):
            out.append("def(%s)" % st.name)
        elif isinstance(st, (ast.For, ast.While, ast.Match if hasattr(ast, "Match") else ast.For)):
            out.append("?" + type(st).__name__)
        else:
            out.append(ast.unparse(st))
    return ";".join(out)


def classify_instance_test(test):
    """the operator deciding that `instance` is missing"""
    if isinstance(test, ast.UnaryOp) and isinstance(test.op, ast.Not) and isinstance(test.operand, ast.Name) \
            and test.operand.id == "instance":
        return "not"
    if isinstance(test, ast.Compare) and isinstance(test.left, ast.Name) and test.left.id == "instance" \
            and len(test.ops) == 1 and isinstance(test.ops[0], ast.Is) and isinstance(test.comparators[0], ast.Constant) \
            and test.comparators[0].value is None:
        return "is None"
    return "unknown: " + ast.unparse(test)


def lean_str(s):
    return json.dumps(s, ensure_ascii=True)


def lean_strs(l):
    return "[" + ", ".join(lean_str(x) for x in l) + "]"


def extract():
    common.repo_on_path()
    server_path = os.path.join(common.REPO, "Pyro5", "server.py")
    sock_path = os.path.join(common.REPO, "Pyro5", "socketutil.py")
    tree = ast.parse(open(server_path).read())
    daemon = [n for n in tree.body if isinstance(n, ast.ClassDef) and n.name == "Daemon"][0]
    fns = {n.name: n for n in daemon.body if isinstance(n, ast.FunctionDef)}
    gi = fns["_getInstance"]

    # ---- the mode chain -------------------------------------------------------------------
    body = [st for st in gi.body if not _is_doc(st)]
    if not (len(body) == 3 and isinstance(body[0], ast.FunctionDef) and body[0].name == "createInstance"
            and isinstance(body[1], ast.Assign) and isinstance(body[2], ast.If)):
        raise ValueError("_getInstance: unexpected statement structure")
    unpack = ast.unparse(body[1])
    branches = []          # (mode literal, statements)
    node = body[2]
    else_body = None
    while True:
        t = node.test
        if not (isinstance(t, ast.Compare) and isinstance(t.left, ast.Name) and t.left.id == "instance_mode"
                and len(t.ops) == 1 and isinstance(t.ops[0], ast.Eq) and isinstance(t.comparators[0], ast.Constant)):
            raise ValueError("_getInstance: unexpected mode test " + ast.unparse(t))
        branches.append((t.comparators[0].value, node.body))
        if len(node.orelse) == 1 and isinstance(node.orelse[0], ast.If):
            node = node.orelse[0]
        else:
            else_body = node.orelse
            break
    tests = {}

    def hook_for(mode):
        def hook(ifnode):
            names = {n.id for n in ast.walk(ifnode.test) if isinstance(n, ast.Name)}
            if names == {"instance"}:
                tests.setdefault(mode, []).append(classify_instance_test(ifnode.test))
                return "TEST"
            return None
        return hook
    shapes = {m: skel(b, hook_for(m)) for m, b in branches}

    def one_test(mode):
        l = tests.get(mode, [])
        return l[0] if len(l) == 1 else "unknown: %d tests" % len(l)

    # ---- createInstance -------------------------------------------------------------------
    create_shape = skel(body[0].body)
    create_args = [a.arg for a in body[0].args.args]

    # ---- lock shape: accesses of self._pyroInstances per function, inside/outside the lock ----
    shape = []

    def count(fn):
        inside = outside = 0

        def visit(n, locked):
            nonlocal inside, outside
            if isinstance(n, ast.With):
                is_lock = any(isinstance(i.context_expr, ast.Attribute) and i.context_expr.attr == "create_single_instance_lock"
                              and getattr(i.context_expr.value, "id", None) == "self" for i in n.items)
                for i in n.items:
                    visit(i.context_expr, locked)
                for st in n.body:
                    visit(st, locked or is_lock)
                return
            if isinstance(n, ast.Attribute) and n.attr == "_pyroInstances":
                if locked:
                    inside += 1
                else:
                    outside += 1
            for ch in ast.iter_child_nodes(n):
                visit(ch, locked)
        for st in fn.body:
            visit(st, False)
        return inside, outside
    for top in tree.body:
        if isinstance(top, ast.ClassDef):
            for f in top.body:
                if isinstance(f, ast.FunctionDef):
                    i, o = count(f)
                    if i or o:
                        shape.append(("%s.%s" % (top.name, f.name), i, o))
        elif isinstance(top, ast.FunctionDef):
            i, o = count(top)
            if i or o:
                shape.append((top.name, i, o))
    lock_kind = "unknown"
    for n in ast.walk(fns["__init__"]):
        if isinstance(n, ast.Assign) and any(isinstance(t, ast.Attribute) and t.attr == "create_single_instance_lock"
                                             for t in n.targets) and isinstance(n.value, ast.Call):
            lock_kind = ast.unparse(n.value.func)
    # every Daemon object gets its own table and its own lock, in __init__; neither exists at class level
    init_tables = [ast.unparse(n) for n in fns["__init__"].body
                   if isinstance(n, ast.Assign) and any(isinstance(t, ast.Attribute) and t.attr in
                                                        ("_pyroInstances", "create_single_instance_lock") for t in n.targets)]
    class_level = []
    for st in daemon.body:
        if isinstance(st, (ast.Assign, ast.AnnAssign)):
            targets = st.targets if isinstance(st, ast.Assign) else [st.target]
            if any(isinstance(t, ast.Name) and t.id in ("_pyroInstances", "create_single_instance_lock") for t in targets):
                class_level.append(ast.unparse(st))
    callers = []
    for top in ast.walk(tree):
        if isinstance(top, ast.FunctionDef):
            for n in ast.walk(top):
                if isinstance(n, ast.Call) and isinstance(n.func, ast.Attribute) and n.func.attr == "_getInstance":
                    callers.append("%s: %s" % (top.name, ast.unparse(n)))

    # ---- behavior / register ----------------------------------------------------------------
    beh = [n for n in tree.body if isinstance(n, ast.FunctionDef) and n.name == "behavior"][0]
    beh_defaults = [ast.unparse(d) for d in beh.args.defaults]
    inner = [n for n in beh.body if isinstance(n, ast.FunctionDef)][0]
    beh_outer = skel([st for st in beh.body if not isinstance(st, ast.FunctionDef)])
    beh_inner = skel(inner.body)
    reg_default = "unknown"
    for n in ast.walk(fns["register"]):
        if isinstance(n, ast.If) and "_pyroInstancing" in ast.unparse(n.test):
            reg_default = "if(%s)[%s]" % (ast.unparse(n.test), skel(n.body))

    # ---- SocketConnection -------------------------------------------------------------------
    stree = ast.parse(open(sock_path).read())
    sc = [n for n in stree.body if isinstance(n, ast.ClassDef) and n.name == "SocketConnection"][0]
    sfns = {n.name: n for n in sc.body if isinstance(n, ast.FunctionDef)}
    conn_init = [s for s in skel(sfns["__init__"].body).split(";") if "pyroInstances" in s or "keep_open" in s]
    close_top = []
    for st in sfns["close"].body:
        if _is_doc(st):
            continue
        s = skel([st])
        close_top.append(s if ("pyroInstances" in s or "keep_open" in s) else type(st).__name__)
    other_touch = []
    for top in ast.walk(stree):
        if isinstance(top, ast.FunctionDef) and top.name not in ("__init__", "close"):
            if any(isinstance(n, ast.Attribute) and n.attr == "pyroInstances" for n in ast.walk(top)):
                other_touch.append(top.name)
    # every other use of `.pyroInstances` in the package's server side
    users = []
    pkg = os.path.join(common.REPO, "Pyro5")
    for fname in sorted(os.listdir(pkg)):
        if fname.endswith(".py"):
            t = ast.parse(open(os.path.join(pkg, fname)).read())
            k = sum(1 for n in ast.walk(t) if isinstance(n, ast.Attribute) and n.attr in ("pyroInstances", "_pyroInstances"))
            if k:
                users.append("%s:%d" % (fname, k))

    rows = ", ".join("(%s, %d, %d)" % (lean_str(n), i, o) for n, i, o in shape)
    return f"""-- GENERATED by harness/props/c09_extract.py from Pyro5/server.py and Pyro5/socketutil.py — do not edit
namespace Pyro.Gen.C09
/-- `instance_mode, instance_creator = clazz._pyroInstancing` -/
def unpack : String := {lean_str(unpack)}
/-- the string literals of the `if instance_mode == ...` chain of `_getInstance`, in order -/
def modeBranches : List String := {lean_strs([m for m, _ in branches])}
/-- statement skeleton of each branch (logging dropped; the test on `instance` replaced by TEST) -/
def singleShape : String := {lean_str(shapes.get("single", "missing"))}
def sessionShape : String := {lean_str(shapes.get("session", "missing"))}
def percallShape : String := {lean_str(shapes.get("percall", "missing"))}
def elseShape : String := {lean_str(skel(else_body or []))}
/-- the operator with which each branch decides that there is no instance yet: "not" | "is None" -/
def singleTest : String := {lean_str(one_test("single"))}
def sessionTest : String := {lean_str(one_test("session"))}
/-- the nested `createInstance({", ".join(create_args)})` -/
def createArgs : List String := {lean_strs(create_args)}
def createShape : String := {lean_str(create_shape)}
/-- (function, accesses of `._pyroInstances` lexically inside `with self.create_single_instance_lock:`, outside) -/
def instShape : List (String × Nat × Nat) := [{rows}]
def lockKind : String := {lean_str(lock_kind)}
def getInstanceCallers : List String := {lean_strs(callers)}
/-- top-level statements of `Daemon.__init__` that assign the single-instance table / its lock, and class-level
    assignments of the same names in `class Daemon` -/
def daemonInitTables : List String := {lean_strs(init_tables)}
def daemonClassLevelTables : List String := {lean_strs(class_level)}
/-- `behavior(instance_mode=..., instance_creator=...)`: defaults, outer statements, `_behavior(clazz)` -/
def behaviorDefaults : List String := {lean_strs(beh_defaults)}
def behaviorOuter : String := {lean_str(beh_outer)}
def behaviorInner : String := {lean_str(beh_inner)}
def registerDefault : String := {lean_str(reg_default)}
/-- SocketConnection: what `__init__` and `close` do with `pyroInstances` / `keep_open`, in statement order -/
def connInit : List String := {lean_strs(conn_init)}
def connClose : List String := {lean_strs(close_top)}
def connOtherWriters : List String := {lean_strs(other_touch)}
/-- files of the package that mention `.pyroInstances` / `._pyroInstances`, with the number of mentions -/
def tableUsers : List String := {lean_strs(users)}
end Pyro.Gen.C09
"""


if __name__ == "__main__":
    print(extract())
