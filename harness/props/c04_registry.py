"""
C04, opt-in converter registry: "Unless the application registered a converter for a tag itself, decoding never ...
calls other constructors".  Histories of register / unregister calls made through every handle the API offers
(SerializerBase, each serializer class, each serializer instance, Pyro5.api functions), followed by decoding a dict
with that tag through every serializer on both paths: the converter runs iff the tag is registered NOW.
(Real-code oracle only; the registry is a plain global map in the Lean model: `reg`.)
"""
import common


def encode_then_decode(ctx):
    """what the process has ENCODED must not widen what it accepts when DECODING: an application exception class
    that was serialised (by any serializer) is still refused when it comes back as a class tag"""
    common.repo_on_path()
    import sys
    import types
    from Pyro5 import serializers
    mod = types.ModuleType("verifapp_c04")
    sys.modules["verifapp_c04"] = mod
    built = []

    class JobFailed(Exception):
        def __init__(self, *a):
            built.append(a)
            super().__init__(*a)
    JobFailed.__module__ = "verifapp_c04"
    JobFailed.__qualname__ = "JobFailed"
    mod.JobFailed = JobFailed
    try:
        for enc_name, enc in serializers.serializers.items():
            try:
                enc.dumps(JobFailed("sent out"))
                enc.dumpsCall("o", "m", (JobFailed("arg"),), {})
            except Exception:
                pass
            del built[:]
            for dec_name, dec in serializers.serializers.items():
                for path in ("loads", "loadsCall"):
                    d = {"__class__": "verifapp_c04.JobFailed", "__exception__": True, "args": ["hostile"], "attributes": {"x": 1}}
                    try:
                        if path == "loads":
                            out = dec.loads(dec.dumps(d))
                        else:
                            out = dec.loadsCall(dec.dumpsCall("o", "m", (d,), {}))[2][0]
                        accepted = not isinstance(out, dict)
                    except Exception:
                        accepted = False
                    ctx.evaluations += 1
                    if accepted or built:
                        ctx.fail("encode-widens-decode", "after %s serialised an application exception, %s.%s builds the class from "
                                 "a hostile class dict (constructor calls: %r)" % (enc_name, dec_name, path, built),
                                 {"encoder": enc_name, "decoder": dec_name, "path": path})
                        return
    finally:
        sys.modules.pop("verifapp_c04", None)
        for k in [k for k in serializers.all_exceptions if "verifapp_c04" in str(k)]:
            serializers.all_exceptions.pop(k, None)


def run(ctx, n):
    encode_then_decode(ctx)
    common.repo_on_path()
    from Pyro5 import serializers, api, errors
    rng = ctx.sub_rng("registry")
    sers = serializers.serializers
    handles = [("SerializerBase", serializers.SerializerBase)] + \
              [(type(s).__name__, type(s)) for s in sers.values()] + [("inst:" + k, s) for k, s in sers.items()]
    tags = ["demoapp.Gadget", "demoapp.Widget", "x.y.Z"]
    for i in range(n):
        calls = []
        registered = {}

        def conv(classname, d, _calls=calls):
            _calls.append(classname)
            return ("converted", classname)
        hist = []
        try:
            for _ in range(rng.choice([1, 2, 3, 4, 6])):
                tag = rng.choice(tags)
                name, h = rng.choice(handles + [("api", None)])
                if rng.random() < 0.55:
                    if h is None:
                        api.register_dict_to_class(tag, conv)
                    else:
                        h.register_dict_to_class(tag, conv)
                    registered[tag] = True
                    hist.append("register %s via %s" % (tag, name))
                else:
                    if h is None:
                        api.unregister_dict_to_class(tag)
                    else:
                        h.unregister_dict_to_class(tag)
                    registered.pop(tag, None)
                    hist.append("unregister %s via %s" % (tag, name))
            for sname, ser in sers.items():
                for tag in tags:
                    for path in ("loads", "loadsCall"):
                        del calls[:]
                        d = {"__class__": tag, "v": 1}
                        try:
                            if path == "loads":
                                out = ser.loads(ser.dumps(d))
                            else:
                                out = ser.loadsCall(ser.dumpsCall("o", "m", (d,), {}))[2][0]
                            ok = True
                        except Exception:
                            out, ok = None, False
                        ctx.evaluations += 1
                        want = tag in registered
                        got = bool(calls)
                        if got != want or (want and not ok):
                            ctx.fail("converter-registry:%s" % ("stale" if got and not want else "ignored"),
                                     "%s.%s of a dict tagged %r: converter %s although the tag is %s; history: %s"
                                     % (sname, path, tag, "ran" if got else "did not run", "registered" if want else "NOT registered",
                                        "; ".join(hist)), {"history": hist, "serializer": sname, "path": path, "tag": tag})
                            return
            if len(hist) >= 3:
                ctx.nontriv("registry:" + "|".join(hist))
        finally:
            for tag in tags:
                serializers.SerializerBase.unregister_dict_to_class(tag)
                for _, h in handles:
                    try:
                        h.unregister_dict_to_class(tag)
                    except Exception:
                        pass
