"""C06 — shallow translation of `protocol.recv_stub` (python `ast` -> Lean source text over the model's own types).

The result is a Lean term of type `Pyro.C06Glue.M Decoded` (a state + exception monad over the connection: bytes requested so
far, unread stream) whose collaborators are the operations of `Pyro.C06Glue.Ops`:

    connection.recv(n)                 ->  recv n                       (exactly n bytes or ConnectionClosedError, Wire.recvN)
    ReceivingMessage.validate(b)       ->  lift (ops.validate b)
    ReceivingMessage(b)                ->  lift (ops.construct b)       (a `Header`: the message before its body is added)
    msg.add_payload(b)                 ->  lift (ops.addPayload msg b)  (from then on `msg` is a `Decoded`)
    msg.type / .annotations_size / .data_size (before add_payload) -> Header fields
    accepted_msgtypes (truth value)    ->  !accepted.isEmpty            ([] stands for None / an empty sequence)
    x in / not in accepted_msgtypes    ->  accepted.contains x
    raise errors.ProtocolError(text)   ->  raise .badType if the text's constant prefix is "invalid msg type" (the prefix the
                                           harness classifies by), else raise .protocol
    return msg (after add_payload)     ->  ret msg

SOUND BY REFUSAL: every statement / expression / call target / attribute / operator that is not listed here raises
`Untranslatable`.  Skipped without trace: docstrings, `log.*(...)` calls (the callee is resolved through the real module and must
be a `logging.Logger`), and *text* (str-valued, effect-free) locals that only feed log calls and exception messages.
Understood and dropped: `exc.pyroMsg = msg` (attaches the header-only message to the exception; the model's error has no such
field and the harness does not observe it).

Normalisations: locals/parameters are renamed in order of first binding (v0, v1, ...); every rebinding gets a fresh name;
module-level int constants are resolved through the real module and constant arithmetic is folded; module-level helper functions
are inlined at the call site; `if c: A` followed by the rest R is `if c then A;R' else R` where a branch that ends in
`return` / `raise` drops R (so `if bad: raise` + rest and `if good: rest; return` + raise have the same normal form up to the
polarity of the condition, which the proof treats by cases); `not x in y` = `x not in y`.
"""
import ast
import inspect
import logging
import textwrap


class Untranslatable(Exception):
    pass


class V:
    """a translated value: kind in {bytes, nat, hdr, dec, acc, conn, text, exc, none} and a Lean term / static payload"""

    def __init__(self, kind, term=None, const=None, prefix=""):
        self.kind, self.term, self.const, self.prefix = kind, term, const, prefix


def nat_sum(a, b):
    """a + b on naturals in a normal form: the non-constant summands sorted, the constants folded into one (so that
    `x + y`, `y + x` and `x + 0 + y` are the same text)"""
    def parts(v):
        if v.const is not None:
            return [], v.const
        return list(getattr(v, "atoms", [v.term])), getattr(v, "offset", 0)
    xa, ca = parts(a)
    xb, cb = parts(b)
    atoms, c = sorted(xa + xb), ca + cb
    if not atoms:
        return V("nat", str(c), const=c)
    term = " + ".join(atoms + ([str(c)] if c else []))
    v = V("nat", "(%s)" % term if (len(atoms) > 1 or c) else term)
    v.atoms, v.offset = atoms, c
    return v


HDR_FIELDS = {"type": "type", "annotations_size": "annSize", "data_size": "dataSize", "seq": "seq", "flags": "flags",
              "serializer_id": "serId"}


class Tr:
    def __init__(self, module):
        self.m = module
        self.counter = 0
        self.depth = 0

    def fresh(self):
        n = "v%d" % self.counter
        self.counter += 1
        return n

    # ---------------------------------------------------------------- names resolved through the real module
    def resolve(self, e):
        """the python object a dotted name denotes at module level, or None"""
        if isinstance(e, ast.Name):
            return getattr(self.m, e.id, None)
        if isinstance(e, ast.Attribute):
            base = self.resolve(e.value)
            return getattr(base, e.attr, None) if base is not None else None
        return None

    # ---------------------------------------------------------------- expressions
    def expr(self, e, env, k):
        """translate expression e; k(value) -> Lean text of the rest.  Effects (recv, collaborator calls) are emitted as binds
        around the rest, in python's evaluation order."""
        if isinstance(e, ast.Constant):
            if type(e.value) is int and e.value >= 0:
                return k(V("nat", str(e.value), const=e.value))
            if type(e.value) is str:
                return k(V("text", prefix=e.value.split("{")[0]))
            if e.value is None:
                return k(V("none"))
            raise Untranslatable("constant %r" % (e.value,))
        if isinstance(e, ast.Name):
            if e.id in env:
                return k(env[e.id])
            obj = getattr(self.m, e.id, None)
            if type(obj) is int and obj >= 0:
                return k(V("nat", str(obj), const=obj))
            raise Untranslatable("name %s" % e.id)
        if isinstance(e, ast.Attribute):
            if isinstance(e.value, ast.Name) and e.value.id in env:
                base = env[e.value.id]
                if base.kind == "hdr" and e.attr in HDR_FIELDS:
                    return k(V("nat", "%s.%s" % (base.term, HDR_FIELDS[e.attr])))
                raise Untranslatable("attribute .%s of a %s" % (e.attr, base.kind))
            obj = self.resolve(e)
            if type(obj) is int and obj >= 0:
                return k(V("nat", str(obj), const=obj))
            raise Untranslatable("attribute " + ast.unparse(e))
        if isinstance(e, ast.BinOp):
            def after_left(a):
                def after_right(b):
                    if isinstance(e.op, ast.Add) and a.kind == b.kind == "nat":
                        return k(nat_sum(a, b))
                    if isinstance(e.op, ast.Sub) and a.kind == b.kind == "nat" and a.const is not None and b.const is not None \
                            and a.const >= b.const:
                        return k(V("nat", str(a.const - b.const), const=a.const - b.const))
                    if isinstance(e.op, ast.Add) and a.kind == b.kind == "bytes":
                        return k(V("bytes", "(%s ++ %s)" % (a.term, b.term)))
                    raise Untranslatable("operator %s on %s, %s" % (type(e.op).__name__, a.kind, b.kind))
                return self.expr(e.right, env, after_right)
            return self.expr(e.left, env, after_left)
        if isinstance(e, (ast.BoolOp, ast.Compare)) or (isinstance(e, ast.UnaryOp) and isinstance(e.op, ast.Not)):
            # a pure test as a value (`ok = not a or x in a`): kept as its formula and substituted where the local is tested.
            # Python's and / or return an operand, not a bool, so such a value may ONLY be used for its truth value: every
            # other use of kind "cond" (arithmetic, text, argument, return) is refused by the kind checks.
            return k(V("cond", const=None, term=None, prefix=self.cond(e, env)))
        if isinstance(e, ast.Call):
            return self.call(e, env, k)
        if isinstance(e, ast.JoinedStr):
            return self.text_only(e, env, k)
        raise Untranslatable("expression %s" % type(e).__name__)

    def args(self, es, env, k, acc=None):
        acc = acc or []
        if not es:
            return k(acc)
        return self.expr(es[0], env, lambda v: self.args(es[1:], env, k, acc + [v]))

    def is_text(self, e, env):
        """e is a str-valued expression without effects, built from constants, text locals, numbers of the header and the accepted
        list (so it can only feed a log line or an exception message)"""
        if isinstance(e, ast.Constant):
            return type(e.value) in (str, int)
        if isinstance(e, ast.Name):
            return (e.id in env and env[e.id].kind in ("text", "nat", "acc")) or type(getattr(self.m, e.id, None)) in (int, str)
        if isinstance(e, ast.Attribute):
            return isinstance(e.value, ast.Name) and e.value.id in env and env[e.value.id].kind == "hdr" and e.attr in HDR_FIELDS
        if isinstance(e, ast.JoinedStr):
            return all(self.is_text(v.value if isinstance(v, ast.FormattedValue) else v, env) for v in e.values)
        if isinstance(e, ast.Call) and not e.keywords:
            f = e.func
            if isinstance(f, ast.Name) and f.id in ("str", "repr") and f.id not in env and len(e.args) == 1:
                return self.is_text(e.args[0], env)
            if isinstance(f, ast.Attribute) and f.attr == "format" and isinstance(f.value, ast.Constant) and type(f.value.value) is str:
                return all(self.is_text(a, env) for a in e.args)
            if isinstance(f, ast.Attribute) and f.attr == "join" and isinstance(f.value, ast.Constant) and type(f.value.value) is str \
                    and len(e.args) == 1:
                g = e.args[0]
                if isinstance(g, (ast.GeneratorExp, ast.ListComp)) and len(g.generators) == 1 and not g.generators[0].ifs \
                        and isinstance(g.generators[0].target, ast.Name) and isinstance(g.generators[0].iter, ast.Name) \
                        and g.generators[0].iter.id in env and env[g.generators[0].iter.id].kind == "acc":
                    inner = dict(env)
                    inner[g.generators[0].target.id] = V("nat", "_")
                    return self.is_text(g.elt, inner)
        if isinstance(e, ast.BinOp) and isinstance(e.op, (ast.Add, ast.Mod)):
            return self.is_text(e.left, env) and (self.is_text(e.right, env) or (
                isinstance(e.right, ast.Tuple) and all(self.is_text(x, env) for x in e.right.elts)))
        return False

    def text_prefix(self, e, env):
        if isinstance(e, ast.Constant) and type(e.value) is str:
            return e.value
        if isinstance(e, ast.Name) and e.id in env and env[e.id].kind == "text":
            return env[e.id].prefix
        if isinstance(e, ast.Call) and isinstance(e.func, ast.Attribute) and e.func.attr == "format" and isinstance(e.func.value, ast.Constant):
            return e.func.value.value.split("{")[0]
        if isinstance(e, ast.BinOp) and isinstance(e.op, ast.Mod) and isinstance(e.left, ast.Constant) and type(e.left.value) is str:
            return e.left.value.split("%")[0]
        if isinstance(e, ast.BinOp) and isinstance(e.op, ast.Add):
            return self.text_prefix(e.left, env) if not (isinstance(e.left, ast.Constant)) else e.left.value
        if isinstance(e, ast.JoinedStr) and e.values and isinstance(e.values[0], ast.Constant):
            return e.values[0].value
        return ""

    def text_only(self, e, env, k):
        if not self.is_text(e, env):
            raise Untranslatable("expression " + ast.unparse(e)[:60])
        return k(V("text", prefix=self.text_prefix(e, env)))

    def call(self, e, env, k):
        f = e.func
        if e.keywords:
            raise Untranslatable("keyword arguments in " + ast.unparse(e)[:60])
        # method of a local
        if isinstance(f, ast.Attribute) and isinstance(f.value, ast.Name) and f.value.id in env:
            base = env[f.value.id]
            if base.kind == "conn" and f.attr == "recv" and len(e.args) == 1:
                def got(n):
                    if n.kind != "nat":
                        raise Untranslatable("recv of a %s" % n.kind)
                    v = self.fresh()
                    return "gBind (gRecv %s) fun %s =>\n%s" % (n.term, v, k(V("bytes", v)))
                return self.expr(e.args[0], env, got)
            raise Untranslatable("call %s.%s(...)" % (base.kind, f.attr))
        obj = self.resolve(f)
        RM = getattr(self.m, "ReceivingMessage", None)
        if obj is not None and RM is not None:
            if obj is RM and len(e.args) == 1:
                def got(b):
                    if b.kind != "bytes":
                        raise Untranslatable("ReceivingMessage(<%s>)" % b.kind)
                    v = self.fresh()
                    return "gBind (gLift (ops.construct %s)) fun %s =>\n%s" % (b.term, v, k(V("hdr", v)))
                return self.expr(e.args[0], env, got)
            vd = RM.__dict__.get("validate", None)
            if isinstance(vd, staticmethod) and inspect.isfunction(obj) and obj is vd.__func__ \
                    and isinstance(f, ast.Attribute) and self.resolve(f.value) is RM:
                if len(e.args) != 1:
                    raise Untranslatable("validate with %d arguments" % len(e.args))

                def got(b):
                    if b.kind != "bytes":
                        raise Untranslatable("validate(<%s>)" % b.kind)
                    return "gBind (gLift (ops.validate %s)) fun _ =>\n%s" % (b.term, k(V("none")))
                return self.expr(e.args[0], env, got)
            if isinstance(obj, type) and issubclass(obj, BaseException):
                if len(e.args) > 2:
                    raise Untranslatable("exception with %d arguments" % len(e.args))
                prefix = ""
                for i, a in enumerate(e.args):
                    if not self.is_text(a, env):
                        raise Untranslatable("exception argument " + ast.unparse(a)[:60])
                    if i == 0:
                        prefix = self.text_prefix(a, env)
                errors = self.m.errors
                if obj is errors.ProtocolError:
                    return k(V("exc", ".badType" if prefix.startswith("invalid msg type") else ".protocol"))
                if obj is errors.ConnectionClosedError:
                    return k(V("exc", ".closed"))
                raise Untranslatable("raise of class " + obj.__name__)
            if inspect.isfunction(obj) and getattr(obj, "__module__", None) == self.m.__name__ and obj.__qualname__ == obj.__name__:
                return self.inline(obj, e, env, k)
        if self.is_text(e, env):
            return self.text_only(e, env, k)
        raise Untranslatable("call " + ast.unparse(f)[:60])

    def inline(self, fn, e, env, k):
        """a module-level helper: its body in place of the call, `return x` continues with x"""
        if self.depth > 4:
            raise Untranslatable("helper nesting too deep")
        node = ast.parse(textwrap.dedent(inspect.getsource(fn))).body[0]
        a = node.args
        if a.vararg or a.kwarg or a.kwonlyargs or a.posonlyargs or len(e.args) > len(a.args):
            raise Untranslatable("signature of helper " + fn.__name__)
        ndef = len(a.defaults)
        if len(e.args) < len(a.args) - ndef:
            raise Untranslatable("missing arguments for helper " + fn.__name__)

        def bound(vals):
            inner = {}
            for p, v in zip(a.args, vals):
                inner[p.arg] = v
            rest = a.args[len(vals):]
            defaults = a.defaults[len(a.defaults) - len(rest):] if rest else []
            for p, d in zip(rest, defaults):
                if not (isinstance(d, ast.Constant) and d.value is None):
                    raise Untranslatable("default of helper parameter " + p.arg)
                inner[p.arg] = V("none")
            self.depth += 1
            try:
                return self.block(node.body, inner, k, lambda env2: k(V("none")))
            finally:
                self.depth -= 1
        return self.args(e.args, env, bound)

    # ---------------------------------------------------------------- conditions
    def cond(self, e, env):
        """a python condition without effects as a formula tree: ("and"|"or", [trees]) | ("not", tree) | ("atom", Lean Bool term)"""
        if isinstance(e, ast.BoolOp):
            return ("and" if isinstance(e.op, ast.And) else "or", [self.cond(v, env) for v in e.values])
        if isinstance(e, ast.UnaryOp) and isinstance(e.op, ast.Not):
            return ("not", self.cond(e.operand, env))
        if isinstance(e, ast.Name) and e.id in env and env[e.id].kind == "acc":
            return ("not", ("atom", "%s.isEmpty" % env[e.id].term))          # truth value of a sequence / None
        if isinstance(e, ast.Name) and e.id in env and env[e.id].kind == "cond":
            return env[e.id].prefix                                          # a local bound to a pure test: its formula
        if isinstance(e, ast.Compare) and len(e.ops) == 1:
            op, l, r = e.ops[0], e.left, e.comparators[0]
            lv = self.pure(l, env)
            rv = self.pure(r, env)
            if isinstance(op, (ast.In, ast.NotIn)) and lv.kind == "nat" and rv.kind == "acc":
                t = ("atom", "(%s.contains %s)" % (rv.term, lv.term))
                return t if isinstance(op, ast.In) else ("not", t)
            if lv.kind == rv.kind == "nat":
                sym = {ast.Eq: "=", ast.NotEq: "≠", ast.Lt: "<", ast.LtE: "≤", ast.Gt: ">", ast.GtE: "≥"}.get(type(op))
                if sym:
                    return ("atom", "(decide (%s %s %s))" % (lv.term, sym, rv.term))
            raise Untranslatable("comparison " + ast.unparse(e)[:60])
        raise Untranslatable("condition " + ast.unparse(e)[:60])

    @staticmethod
    def nnf(t, neg=False):
        """negations pushed to the atoms (De Morgan), nested and/or of the same kind flattened"""
        if t[0] == "atom":
            return ("not", t) if neg else t
        if t[0] == "not":
            return Tr.nnf(t[1], not neg)
        kind = t[0] if not neg else ("or" if t[0] == "and" else "and")
        parts = []
        for x in t[1]:
            y = Tr.nnf(x, neg)
            parts += y[1] if y[0] == kind else [y]
        return (kind, parts)

    @staticmethod
    def render(t):
        if t[0] == "atom":
            return t[1]
        if t[0] == "not":
            return "(!%s)" % Tr.render(t[1])
        return "(" + (" && " if t[0] == "and" else " || ").join(Tr.render(x) for x in t[1]) + ")"

    def pure(self, e, env):
        box = []
        marker = self.counter
        self.expr(e, env, lambda v: box.append(v) or "")
        if self.counter != marker or not box:
            raise Untranslatable("effect inside a condition: " + ast.unparse(e)[:60])
        return box[0]

    # ---------------------------------------------------------------- statements
    def block(self, stmts, env, on_return, on_end):
        """Lean text of the statement list; on_return(value) / on_end(env) give the text of what follows"""
        if not stmts:
            return on_end(env)
        s, rest = stmts[0], stmts[1:]

        def go(env2):
            return self.block(rest, env2, on_return, on_end)
        if isinstance(s, ast.Expr) and isinstance(s.value, ast.Constant) and type(s.value.value) is str:
            return go(env)                                           # docstring
        if isinstance(s, ast.Pass):
            return go(env)
        if isinstance(s, ast.Expr) and isinstance(s.value, ast.Call):
            c = s.value
            f = c.func
            if isinstance(f, ast.Attribute) and isinstance(self.resolve(f.value), logging.Logger) \
                    and f.attr in ("debug", "info", "warning", "error", "critical", "exception"):
                if not all(self.is_text(a, env) for a in c.args) or c.keywords:
                    raise Untranslatable("log call with a non-text argument: " + ast.unparse(c)[:60])
                return go(env)
            if isinstance(f, ast.Attribute) and isinstance(f.value, ast.Name) and f.value.id in env \
                    and env[f.value.id].kind == "hdr" and f.attr == "add_payload" and len(c.args) == 1 and not c.keywords:
                name = f.value.id

                def got(b):
                    if b.kind != "bytes":
                        raise Untranslatable("add_payload(<%s>)" % b.kind)
                    v = self.fresh()
                    env2 = dict(env)
                    old = env[name]
                    for n2, val in env.items():                      # every alias of the message object
                        if val is old:
                            env2[n2] = V("dec", v)
                    return "gBind (gLift (ops.addPayload %s %s)) fun %s =>\n%s" % (old.term, b.term, v, go(env2))
                return self.expr(c.args[0], env, got)
            return self.expr(c, env, lambda v: go(env))              # validate(...) and helpers: for their effect
        if isinstance(s, ast.Assign) and len(s.targets) == 1:
            t = s.targets[0]
            if isinstance(t, ast.Name):
                def got(v):
                    env2 = dict(env)
                    env2[t.id] = v
                    return go(env2)
                return self.expr(s.value, env, got)
            if isinstance(t, ast.Attribute) and isinstance(t.value, ast.Name) and t.value.id in env \
                    and env[t.value.id].kind == "exc" and t.attr == "pyroMsg":
                v = self.pure(s.value, env)
                if v.kind != "hdr":
                    raise Untranslatable("pyroMsg = <%s>" % v.kind)
                return go(env)
            raise Untranslatable("assignment to " + ast.unparse(t)[:60])
        if isinstance(s, ast.AnnAssign) and isinstance(s.target, ast.Name) and s.value is not None:
            return self.block([ast.Assign(targets=[s.target], value=s.value)] + rest, env, on_return, on_end)
        if isinstance(s, ast.AugAssign) and isinstance(s.target, ast.Name) and isinstance(s.op, ast.Add) and s.target.id in env:
            cur = env[s.target.id]

            def got(v):
                if cur.kind == v.kind == "bytes":
                    env2 = dict(env)
                    env2[s.target.id] = V("bytes", "(%s ++ %s)" % (cur.term, v.term))
                    return go(env2)
                raise Untranslatable("%s += %s" % (cur.kind, v.kind))
            return self.expr(s.value, env, got)
        if isinstance(s, ast.If):
            c = self.nnf(self.cond(s.test, env))
            a = self.block(s.body, env, on_return, go)
            b = self.block(s.orelse, env, on_return, go)
            if c[0] == "or":
                # one polarity for a test and its inverse: a disjunction is written as the negated conjunction, branches swapped
                c = self.nnf(c, True)
                a, b = b, a
            return "if %s then\n%s\nelse\n%s" % (self.render(c), a, b)
        if isinstance(s, ast.Raise) and s.exc is not None and s.cause is None:
            def got(v):
                if v.kind != "exc":
                    raise Untranslatable("raise of a %s" % v.kind)
                return "gRaise %s" % v.term
            return self.expr(s.exc, env, got)
        if isinstance(s, ast.Return):
            if s.value is None:
                return on_return(V("none"))
            return self.expr(s.value, env, on_return)
        raise Untranslatable("statement %s: %s" % (type(s).__name__, ast.unparse(s)[:60]))

    # ---------------------------------------------------------------- the function
    def recv_stub(self):
        fn = getattr(self.m, "recv_stub", None)
        if not inspect.isfunction(fn):
            raise Untranslatable("protocol.recv_stub is not a function")
        node = ast.parse(textwrap.dedent(inspect.getsource(fn))).body[0]
        a = node.args
        if len(a.args) != 2 or a.vararg or a.kwarg or a.kwonlyargs or a.posonlyargs or node.decorator_list:
            raise Untranslatable("signature of recv_stub")
        if len(a.defaults) > 1 or (a.defaults and not (isinstance(a.defaults[0], ast.Constant) and a.defaults[0].value is None)):
            raise Untranslatable("defaults of recv_stub")
        env = {a.args[0].arg: V("conn"), a.args[1].arg: V("acc", "accepted")}

        def ret(v):
            if v.kind != "dec":
                raise Untranslatable("recv_stub returns a %s" % v.kind)
            return "gRet %s" % v.term

        def end(env2):
            raise Untranslatable("recv_stub can end without return")
        return self.block(node.body, env, ret, end)


def indent(text, n=2):
    """nest the chain of binds / ifs readably (purely cosmetic: Lean does not need it, parentheses are explicit)"""
    return "\n".join(" " * n + line for line in text.split("\n"))


def recv_stub_lean(module):
    body = Tr(module).recv_stub()
    return ("/-- `recv_stub(connection, accepted_msgtypes)` as it is written now (harness/props/c06_tr.py, shallow: collaborators are\n"
            "    the operations `ops`, the connection is the monad's state) -/\n"
            "def recvStubGlueSrc (ops : Pyro.C06Glue.Ops) (accepted : List Nat) : Pyro.C06Glue.M Pyro.Wire.Decoded :=\n"
            "  open Pyro.C06Glue in\n" + indent(parenthesise(body), 2) + "\n")


def parenthesise(text):
    """`bind m fun v => REST` and `if c then A else B` nest to the right; make that explicit with parentheses so that the
    text does not depend on Lean's layout rules"""
    lines = text.split("\n")
    out, closes = [], 0

    def rec(i):
        # returns (text, next index)
        line = lines[i]
        if line.startswith("gBind "):
            t, j = rec(i + 1)
            return "(" + line + "\n" + t + ")", j
        if line.startswith("if "):
            a, j = rec(i + 1)
            assert lines[j] == "else", lines[j]
            b, j2 = rec(j + 1)
            return "(" + line + "\n" + a + "\nelse\n" + b + ")", j2
        return "(" + line + ")", i + 1
    t, j = rec(0)
    assert j == len(lines)
    return t
