"""C09 — instance modes: one per daemon, one per connection, or one per call."""
import json
import os

import common
import sched as S
from props import c09_extract
from props import c09_tr
from props import c09_real as R

ID = "C09"
LEAN_MODEL_TARGETS = ["drv_c09"]
LEAN_PROOF_TARGETS = ["PyroProps.C09", "PyroProps.C09Ast", "PyroProps.C09Surv", "PyroProps.C09Src"]
AUDIT_FILES = ["PyroModel/Lock.lean", "PyroModel/Instances.lean", "PyroModel/Gen/C09.lean", "PyroProofs/Lock.lean",
               "PyroProofs/Instances.lean", "PyroProps/C09.lean",
               "PyroModel/InstancesSrc.lean", "PyroModel/Gen/C09Src.lean", "PyroProps/C09Ast.lean", "PyroProps/C09Surv.lean", "PyroProps/C09Src.lean"]
THEOREMS = ["Pyro.C09.C09_gen_tests", "Pyro.C09.C09_gen_shape", "Pyro.C09.C09_gen_lock", "Pyro.C09.C09_gen_conn", "Pyro.C09.C09_gen_daemon",
            "Pyro.C09.C09_gen_behavior", "Pyro.C09.C09_behavior_modes",
            "Pyro.C09.C09_single", "Pyro.C09.C09_single_partial", "Pyro.C09.C09_single_falsy_refuted",
            "Pyro.C09.C09_session", "Pyro.C09.C09_session_partial", "Pyro.C09.C09_session_falsy_refuted",
            "Pyro.C09.C09_no_sharing", "Pyro.C09.C09_session_private", "Pyro.C09.C09_session_dropped", "Pyro.C09.C09_close_empties",
            "Pyro.C09.C09_percall", "Pyro.C09.C09_created_fresh", "Pyro.C09.C09_creator_once",
            "Pyro.C09.C09_created_count", "Pyro.C09.C09_failed_creation_stores_nothing", "Pyro.C09.C09_wf",
            "Pyro.C09.C09_single_concurrent", "Pyro.Lock.atomic", "Pyro.Lock.book",
            # the transcription of the current source of Daemon._getInstance (harness/props/c09_tr.py -> Gen/C09Src.lean)
            "Pyro.C09.C09_src_translated_flag", "Pyro.C09.C09_getInstance_translated", "Pyro.C09.C09_runHist_translated",
            "Pyro.C09.C09_source_lock", "Pyro.C09.C09_source_single", "Pyro.C09.C09_source_session",
            "Pyro.C09.C09_source_no_sharing", "Pyro.C09.C09_source_percall", "Pyro.C09.C09_source_creator_once",
            "Pyro.C09.C09_source_creator_count",
            "Pyro.C09.C09_session_never_survives", "Pyro.C09.C09_source_session_never_survives"]
SUITES = ["history", "behavior", "race"]
RULE = ("(a) histories: 1-4 registered classes (mode single/session/percall/undecorated/hand-set invalid; creator none/"
        "callable (needing the class argument / also callable without: default arg, *args, functools.partial, a class) /"
        "falsy-callable; truthiness via nothing/__bool__/__len__; __eq__ default/by-class/always-equal+unhashable), "
        "optionally inherited from a decorated base class by the registered subclass; 1-3 Daemon objects in the process serving the SAME classes (alive together, and shut down and replaced by a new Daemon "
        "mid-history), 1-4 connections, 1-24 events (daemon restart, open with/without keep_open, close — also of connections whose socket fails in shutdown(), call carrying what the "
        "constructor/creator does if run: ok truthy|falsy / wrong type / raises ArithmeticError / raises a TypeError from its own "
        "body always or on its first run only / raises SystemExit / the remote method is interrupted by KeyboardInterrupt after the "
        "instance was handed out; Daemon.close() called while its connections live on), run on the REAL daemons through "
        "_getInstance, through handleRequest with a real INVOKE message, or with every connection served by the real "
        "thread-server job svr_threads.ClientConnectionJob in a worker thread driven in lockstep, "
        "with a real INVOKE message, vs the Lean model line by line (result of every call: instance by creation order, "
        "created?, creator invoked how often?; final tables; m daemons = one model daemon over disjoint labels); (b) behavior(): all 2x5x5 argument shapes; (c) races: small sets of "
        "threads making first calls on `single` classes on the REAL daemon under the deterministic scheduler (yield points: "
        "lock, every table access, constructor, creator; some threads leave and re-enter Daemon.requestLoop), all schedules up to a preemption bound (2 quick / 3 thorough) then "
        "seeded random ones; each outcome is judged directly and compared with the model run in lock-acquisition order. "
        "Non-trivial = a history with >= 1 re-used instance or >= 2 creations / a schedule with >= 2 context switches; "
        "distinct = distinct input line / distinct (program, schedule)")
ASSUMPTIONS = ["a connection is served by one thread at a time (its session table is not shared between threads)",
               "dict.get / dict.__setitem__ are atomic (GIL)",
               "preemption matters only at lock operations, table accesses and inside user code (constructor / creator)",
               "classes are hashed and compared by identity (no metaclass __eq__/__hash__)",
               "user code run by the constructor/creator does not itself call into the same daemon's _getInstance"]
TRUSTED = ["harness/sched.py (deterministic scheduler, instrumented lock and table)",
           "harness/props/c09_real.py: the dynamically built classes, the fake socket and the constructor log stand for user code and the transport"]

CORPUS = os.path.join(common.VERIF, "corpus", "C09")



def extract():
    """Gen/C09Src.lean (the transcription of `_getInstance`, written here) and Gen/C09.lean (returned)."""
    common.repo_on_path()
    src, _refusal = c09_tr.transcribe()        # a refusal is recorded in the file: `C09_src_translated_flag` / `_translated` then fail
    common.write_if_changed(os.path.join(common.LEAN, "PyroModel", "Gen", "C09Src.lean"), src)
    return c09_extract.extract()


# ---- generators -------------------------------------------------------------------------------------
def _pick(rng, weighted):
    r = rng.random() * sum(w for _, w in weighted)
    for v, w in weighted:
        r -= w
        if r <= 0:
            return v
    return weighted[-1][0]


CREATOR_KINDS = [("none", 40), ("callable", 20), ("callable:default", 8), ("callable:varargs", 8), ("callable:partial", 7),
                 ("callable:class", 7), ("falsy", 10)]


def gen_outcome(rng, truth, falsy_bias):
    q = rng.random()
    t = 1 if truth == "plain" else (0 if rng.random() < falsy_bias else 1)
    e = rng.randrange(4)
    if q < 0.02:
        return ["bx"]                 # user code raises SystemExit: not an Exception
    if q < 0.07:
        return ["rs"]
    if q < 0.12:
        return ["te"]                 # user code raises a TypeError of its own, every time it is run
    if q < 0.18:
        return ["te1", t, e]          # ... on its first run for this call only
    if q < 0.25:
        return ["wt", t, e]
    if q < 0.28:
        return ["ok", t, e, "mx"]     # the remote method itself is interrupted (KeyboardInterrupt) after the instance was handed out
    return ["ok", t, e]


def gen_history(rng):
    ncls = rng.choice([1, 1, 2, 2, 3, 4])
    classes = []
    for _ in range(ncls):
        mode = _pick(rng, [("single", 30), ("session", 30), ("percall", 22), ("default", 10), ("invalid", 8)])
        if mode != "default" and rng.random() < 0.15:
            mode += "+sub"            # instancing inherited from a decorated base class; the subclass is what is registered
        creator = _pick(rng, CREATOR_KINDS)
        truth = _pick(rng, [("plain", 25), ("bool", 40), ("len", 35)])
        eq = _pick(rng, [("default", 50), ("byclass", 30), ("alleq", 20)])
        classes.append([mode, creator, truth, eq])
    ndaemon = rng.choice([1, 1, 1, 2, 2, 3])
    nconn = max(ndaemon, rng.choice([1, 2, 2, 3, 4]))
    n = rng.choice([1, 2, 4, 6, 9, 14, 24])
    falsy_bias = rng.choice([0.0, 0.3, 0.6, 1.0])
    restart = rng.choice([0.0, 0.0, 0.05, 0.12])          # a daemon is shut down and replaced by a new one / just close()d
    events = []
    last = None
    for _ in range(n):
        r = rng.random()
        if r < restart:
            events.append(["D", rng.randrange(ndaemon)] if rng.random() < 0.6 else ["Z", rng.randrange(ndaemon)])
        elif r < restart + 0.07:
            events.append(["O", rng.randrange(nconn), 1 if rng.random() < 0.2 else 0])
        elif r < restart + 0.17:
            events.append(["X", rng.randrange(nconn)])
        else:
            if last is not None and rng.random() < 0.35:
                c, k = last                                   # hit the same slot again: the re-use path
            elif last is not None and ndaemon > 1 and rng.random() < 0.3:
                c, k = rng.randrange(nconn), last[1]          # the same class through (probably) another daemon
            else:
                c, k = rng.randrange(nconn), rng.randrange(ncls)
            last = (c, k)
            o = gen_outcome(rng, classes[k][2], falsy_bias)
            events.append(["C", c, k, o])
            if o[0] == "bx" or o[-1] == "mx":
                events.append(["X", c])       # a BaseException ends the connection (the server-side job gives up on it)
    h = {"classes": classes, "nconn": nconn, "events": events,
         "path": _pick(rng, [("direct", 55), ("request", 25), ("job", 20)])}
    if h["path"] == "job":
        for ev in events:
            if ev[0] == "O":
                ev[2] = 0          # keep_open connections are not served by the thread server's job
    if ndaemon > 1:
        h["ndaemon"] = ndaemon
    if rng.random() < 0.3:
        h["bad_shutdown"] = sorted(rng.sample(range(nconn), rng.randint(1, nconn)))   # peers that reset: shutdown() fails on close
    return h


RACE_PROGRAMS = [
    {"classes": [["none", "plain", "default"]], "threads": [[[0, ["ok", 1, 0]]], [[0, ["ok", 1, 1]]]]},
    {"classes": [["none", "bool", "alleq"]], "threads": [[[0, ["ok", 0, 0]]], [[0, ["ok", 0, 1]]]]},
    {"classes": [["callable", "len", "byclass"]], "threads": [[[0, ["ok", 0, 0]]], [[0, ["ok", 1, 1]]], [[0, ["ok", 0, 2]]]]},
    {"classes": [["callable", "plain", "default"]], "threads": [[[0, ["rs"]]], [[0, ["ok", 1, 1]]]]},
    {"classes": [["callable", "bool", "default"]], "threads": [[[0, ["wt", 1, 0]]], [[0, ["ok", 0, 1]]], [[0, ["ok", 1, 2]]]]},
    {"classes": [["none", "plain", "default"], ["callable", "len", "default"]],
     "threads": [[[0, ["ok", 1, 0]], [1, ["ok", 0, 0]]], [[1, ["ok", 0, 1]], [0, ["ok", 1, 1]]]]},
    {"classes": [["falsy", "bool", "default"]], "threads": [[[0, ["ok", 0, 0]], [0, ["ok", 1, 0]]], [[0, ["ok", 1, 1]]]]},
    {"classes": [["callable:default", "plain", "default"]], "threads": [[[0, ["te1", 1, 0]]], [[0, ["ok", 1, 1]]]]},
    {"classes": [["callable:varargs", "len", "default"]], "threads": [[[0, ["te"]]], [[0, ["te1", 0, 1]]], [[0, ["ok", 0, 2]]]]},
    # the daemon's request loop is left and entered again (["L"]) while first calls are in progress
    {"classes": [["none", "plain", "default"]], "threads": [[[0, ["ok", 1, 0]]], [["L"]], [[0, ["ok", 1, 1]]]]},
    {"classes": [["callable", "bool", "default"]], "threads": [[[0, ["ok", 0, 0]], ["L"]], [["L"], [0, ["ok", 0, 1]]]]},
]


def gen_race(rng):
    ncls = rng.choice([1, 1, 2])
    classes = [[_pick(rng, CREATOR_KINDS), rng.choice(["plain", "bool", "len"]),
                rng.choice(["default", "byclass", "alleq"])] for _ in range(ncls)]
    threads = []
    for _ in range(rng.choice([2, 2, 3])):
        calls = []
        for _ in range(rng.choice([1, 1, 2])):
            k = rng.randrange(ncls)
            q = rng.random()
            t = 1 if classes[k][1] == "plain" else rng.choice([0, 1])
            o = (["rs"] if q < 0.1 else ["te"] if q < 0.15 else ["te1", t, rng.randrange(3)] if q < 0.2
                 else ["wt", t, rng.randrange(3)] if q < 0.28 else ["ok", t, rng.randrange(3)])
            calls.append([k, o])
        if rng.random() < 0.25:
            calls.insert(rng.randrange(len(calls) + 1), ["L"])
        threads.append(calls)
    if rng.random() < 0.25:
        threads.append([["L"]])
    return {"classes": classes, "threads": threads}


# ---- running ----------------------------------------------------------------------------------------
_world = None


def world():
    global _world
    if _world is None:
        _world = R.World()
    return _world


def close_world():
    global _world
    if _world is not None:
        try:
            _world.close()
        finally:
            _world = None


def run_history(hist):
    run = R.HistoryRun(world(), hist)
    obs = run.run()
    return run, obs


def corpus_cases():
    out = []
    if os.path.isdir(CORPUS):
        for f in sorted(os.listdir(CORPUS)):
            if f.endswith(".json"):
                out.append((f, json.load(open(os.path.join(CORPUS, f)))))
    return out


def _histories(ctx, n, rng_name, with_model):
    """real run of corpus + generated histories; the direct property check always, the model diff if with_model"""
    rng = ctx.sub_rng(rng_name)
    hists = [(f, c) for f, c in corpus_cases() if c.get("kind", "hist") == "hist"]
    hists += [(None, gen_history(rng)) for _ in range(n)]
    lines, reals, kept = [], [], []
    for name, hist in hists:
        run, obs = run_history(hist)
        ctx.evaluations += 1
        for cl in hist["classes"]:
            ctx.count("mode:" + cl[0])
            ctx.count("creator:" + cl[1])
            ctx.count("truth:" + cl[2])
        ctx.count("path:" + hist.get("path", "direct"))
        ctx.count("daemons:%d" % hist.get("ndaemon", 1))
        ctx.count("daemon-restarts", sum(1 for ev in hist["events"] if ev[0] == "D"))
        ctx.count("daemon-close-calls", sum(1 for ev in hist["events"] if ev[0] == "Z"))
        for ev in hist["events"]:
            if ev[0] == "C":
                ctx.count("outcome:" + ev[3][0] + ("+mx" if ev[3][-1] == "mx" else ""))
        for o in obs:
            ctx.count("obs:" + (("S-created" if o[4] else "S-reused") if o[0] == "S" else o[0]))
        line = R.hist_line(hist)
        reused = sum(1 for o in obs if o[0] == "S" and not o[4])
        made = sum(1 for o in obs if o[0] == "S" and o[4])
        if reused >= 1 or made >= 2:
            ctx.nontriv(line + hist.get("path", ""))
        if not with_model:
            bad = R.judge_history(run.flat, obs)
            if bad:
                ctx.fail(bad[0], ("corpus witness %s: " % name if name else "") + bad[1] + "; history " +
                         json.dumps(hist), {"kind": "hist", **hist})
        else:
            lines.append(line)
            reals.append(run.canonical())
            kept.append(hist)
        if len(ctx.samples) < 3 and len(hist["events"]) >= 4 and name is None:
            ctx.sample({"history": hist, "observed": run.canonical()})
    if with_model:
        outs = common.run_driver("drv_c09", lines)
        ctx.corr_cases += len(lines)
        for hist, l, r, o in zip(kept, lines, reals, outs):
            if r != o:
                ctx.mismatch("history", {"kind": "hist", **hist, "line": l}, r, o)


def _behavior(ctx):
    """behavior() and register(): every argument shape, real vs model"""
    from Pyro5 import server
    w = world()
    lines, reals = [], []
    modes = [("single", "single"), ("session", "session"), ("percall", "percall"), ("bogus", "invalid"), (42, "notstr")]

    class FalsyCallable:
        def __bool__(self):
            return False

        def __call__(self, clazz):
            return clazz()
    creators = [(None, "none"), (lambda clazz: clazz(), "callable"), (FalsyCallable(), "falsycallable"), (17, "notcallable"),
                (0, "falsynotcallable")]
    for is_class in (True, False):
        for mval, mname in modes:
            for cval, cname in creators:
                target = type("B", (object,), {}) if is_class else (lambda: None)
                try:
                    res = server.behavior(instance_mode=mval, instance_creator=cval)(target)
                    m, c = res._pyroInstancing
                    if res is not target or c is not cval:
                        real = "stored-other"
                    else:
                        real = "stored:%s:%s" % (m if m in ("single", "session", "percall") else "invalid",
                                                 "none" if c is None else "callable" if c else "falsy")
                except (TypeError, ValueError, SyntaxError) as x:
                    real = type(x).__name__
                except Exception as x:
                    real = "EXC:" + type(x).__name__
                ctx.evaluations += 1
                ctx.count("behavior:" + real.split(":")[0])
                lines.append("beh %d %s %s" % (is_class, mname, cname))
                reals.append(real)
    # register: the default for an undecorated class; a decorated one is left alone
    for decorated in (None, ("percall", "callable"), ("single", "none")):
        w.new_classes([["default" if decorated is None else decorated[0], "none" if decorated is None else decorated[1],
                        "plain", "default"]])
        try:
            w.register(0)
            m, c = w.classes[0]._pyroInstancing
            reals.append("%s:%s" % (m, "none" if c is None else "callable" if c else "falsy"))
        finally:
            w.cleanup_classes()
        lines.append("reg 0" if decorated is None else "reg 1 %s %s" % decorated)
        ctx.evaluations += 1
    outs = common.run_driver("drv_c09", lines)
    ctx.corr_cases += len(lines)
    for l, r, o in zip(lines, reals, outs):
        if r != o:
            ctx.mismatch("behavior", {"kind": "behavior", "line": l}, r, o)


def _races(ctx, with_model):
    rng = ctx.sub_rng("race-model" if with_model else "race")
    bound = 3 if ctx.tier == "thorough" else 2
    max_runs = ctx.n(100, 1500) if with_model else ctx.n(250, 2500)
    nrandom = ctx.n(10, 200) if with_model else ctx.n(30, 400)
    w = world()
    progs = list(RACE_PROGRAMS) + [gen_race(rng) for _ in range(ctx.n(3, 30))]
    if not with_model:
        for f, c in corpus_cases():
            if c.get("kind") == "race":
                sc, out = R.run_race(w, S.replay_policy(c["schedule"]), c["prog"], S)
                ctx.evaluations += 1
                bad = R.judge_race(c["prog"], out)
                if bad:
                    ctx.fail(bad[0], "corpus witness %s: %s" % (f, bad[1]), c)
    lines, reals, cases = [], [], []
    for prog in progs:
        found = False

        def handle(sc, out):
            nonlocal found
            ctx.evaluations += 1
            sched = [t for t, _ in sc.trace]
            switches = sum(1 for a, b in zip(sc.trace, sc.trace[1:]) if a[0] != b[0])
            if switches >= 2:
                ctx.nontriv((json.dumps(prog), tuple(sched)))
            ctx.count("sched:" + out[0])
            if with_model:
                line, real = R.race_model_line(prog, out)
                if line is None:
                    if not found:
                        found = True
                        ctx.mismatch("race", {"kind": "race", "prog": prog, "schedule": sched}, real, "every call takes the lock once")
                else:
                    lines.append(line)
                    reals.append(real)
                    cases.append({"kind": "race", "prog": prog, "schedule": sched})
            else:
                bad = R.judge_race(prog, out)
                if bad and not found:
                    found = True
                    ctx.fail(bad[0], "%s; threads %s on single classes %s, schedule %r" %
                             (bad[1], json.dumps(prog["threads"]), json.dumps(prog["classes"]), sched),
                             {"kind": "race", "prog": prog, "schedule": sched})
                return bad
            return None
        stop = False
        for prefix, sc, out in S.explore(lambda pol: R.run_race(w, pol, prog, S), bound, max_runs):
            if handle(sc, out) and not ctx.search_mode:
                stop = True
                break
        if stop:
            continue
        for _ in range(nrandom):
            sc, out = R.run_race(w, S.random_policy(rng, 0.5), prog, S)
            if handle(sc, out) and not ctx.search_mode:
                break
    if with_model and lines:
        uniq = {}
        for l, r, c in zip(lines, reals, cases):
            uniq.setdefault((l, r), c)
        ul = list(uniq)
        outs = common.run_driver("drv_c09", [l for l, _ in ul])
        ctx.corr_cases += len(ul)
        for (l, r), o in zip(ul, outs):
            if R.strip_model_race(o) != r:
                ctx.mismatch("race", {**uniq[(l, r)], "line": l}, r, R.strip_model_race(o))


def correspondence(ctx):
    common.repo_on_path()
    try:
        _histories(ctx, ctx.n(4000, 60000), "hist", True)
        _behavior(ctx)
        _races(ctx, True)
    finally:
        close_world()


def oracle(ctx):
    common.repo_on_path()
    try:
        _histories(ctx, ctx.n(4000, 60000), "oracle-hist" + ("-search" if ctx.search_mode else ""), False)
        _races(ctx, False)
    finally:
        close_world()


def replay(ctx, case):
    f = case.get("failing_input") or {}
    c = f.get("case") or case
    common.repo_on_path()
    try:
        if c.get("kind") == "race":
            sc, out = R.run_race(world(), S.replay_policy(c["schedule"]), c["prog"], S)
            print("program", json.dumps(c["prog"]))
            print("schedule", c["schedule"], "->", [t for t, _ in sc.trace])
            print("outcome", out[0], "results", out[1], "lock order", out[2], "instances per class", out[3])
            bad = R.judge_race(c["prog"], out)
            print(("VIOLATION reproduced: %s — %s" % bad) if bad else "not reproduced")
            return 1 if bad else 0
        if "events" in c:
            run, obs = run_history(c)
            print("history", json.dumps({k: c[k] for k in ("classes", "nconn", "ndaemon", "bad_shutdown", "events", "path") if k in c}))
            print("observed", run.canonical())
            bad = R.judge_history(run.flat, obs)
            print(("VIOLATION reproduced: %s — %s" % bad) if bad else "not reproduced (the property holds on this history)")
            return 1 if bad else 0
        print(json.dumps(case.get("no_longer_checks")))
        return 1
    finally:
        close_world()
