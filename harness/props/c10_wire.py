"""C10 over the wire: the REAL multiplex server (Daemon.requestLoop -> SocketServer_Multiplex.loop/events), the REAL Proxy and
_StreamResultIterator over a unix socket, on the virtual clock.  What the in-process rig of c10.py cannot show:
  * the wire hop (handleRequest: correlation id from the wire, _streamResponse, STRM annotation; client: FLAGS_ITEMSTREAMRESULT);
  * that housekeeping really happens on a server that is kept busy: it is driven by the transport (events() runs it after every
    batch of requests; the idle branch of loop() is made unreachable here with a long POLLTIMEOUT), so lifetime / linger expiry must
    take effect while other clients keep calling.
Judged by c10.Spec (the property, independent of the Lean model) on the client-visible replies only, plus emptiness of the
server's table at quiescence.  No sleeps: the client thread synchronises with the single server thread by completed round trips."""
import os
import shutil
import tempfile
import threading
import uuid

import common

MAX_BARRIER = 2000
SECRET = "c10-wire-handshake"      # every proxy of the rig carries this handshake; the daemon refuses any other


class WireRig:
    """mode "loop": the daemon's own requestLoop() serves; mode "events": the application's own loop selects on
    daemon.sockets and hands the ready ones to daemon.events() (requestLoop is never entered)"""

    def __init__(self, mode="loop"):
        self.mode = mode
        common.repo_on_path()
        from props import c10 as base
        from Pyro5 import server, config, callcontext, api
        self.base = base
        self.config = config
        self.server = server
        self.ctxobj = callcontext.current_context
        self.saved = (server.time, config.SERVERTYPE, config.POLLTIMEOUT, config.COMMTIMEOUT, config.ITER_STREAMING,
                      config.ITER_STREAM_LIFETIME, config.ITER_STREAM_LINGER, self.ctxobj.correlation_id)
        self.clock = base.VClock(server.time, 1000)
        server.time = self.clock
        config.SERVERTYPE = "multiplex"
        config.POLLTIMEOUT = 60.0      # steady traffic: select() never times out, the idle branch of loop() is not taken
        config.COMMTIMEOUT = 0.0
        self.tmp = tempfile.mkdtemp(prefix="c10wire")
        rig = self
        self.disconnects = 0        # connections whose end the server has processed (counted by the daemon's disconnect hook)
        self.accepted = 0           # connections whose handshake the daemon has accepted

        class WireDaemon(server.Daemon):
            def validateHandshake(self, conn, data):
                if data != SECRET:
                    raise ValueError("this daemon only talks to clients that present its handshake")
                rig.accepted += 1
                return "hello"

            def clientDisconnect(self, conn):
                rig.disconnects += 1

        @api.expose
        class Source(object):
            def gen(self, items, kind):
                items = [tuple(i) for i in items]
                if kind == "class":
                    return WireIter(items)

                def g():
                    for k, v in items:
                        if k == "v":
                            yield v
                        else:
                            raise ValueError("src", v)
                return g()

            def ping(self):
                return "pong"

            # a remote PROPERTY whose value is an iterator: read through the `__getattr__` pseudo-method (server.py 456-468)
            def prepare(self, items, kind):
                self._pending = (items, kind)
                return True

            @property
            def stream(self):
                items, kind = self._pending
                return self.gen(items, kind)

            # the clock and the settings change INSIDE the server thread, between two requests: the housekeeping pass that
            # follows a reply runs concurrently with the client, so the client never touches what that pass reads
            def tick(self, dt):
                rig.clock.now += dt
                return rig.clock.now

            def drop(self, sid):
                rig.daemon.streaming_responses.pop(sid, None)
                return True

            def reset(self, lifetime, linger, now):
                config.ITER_STREAMING, config.ITER_STREAM_LIFETIME, config.ITER_STREAM_LINGER = True, lifetime, linger
                rig.daemon.streaming_responses.clear()
                rig.clock.now = now
                return True

        class WireIter(object):
            def __init__(self, items):
                self.items, self.pos = items, 0

            def __iter__(self):
                return self

            def __next__(self):
                if self.pos >= len(self.items):
                    raise StopIteration
                k, v = self.items[self.pos]
                self.pos += 1
                if k == "v":
                    return v
                raise ValueError("src", v)
        try:
            self.daemon = WireDaemon(unixsocket=os.path.join(self.tmp, "s"))
        except BaseException:
            self._restore()
            raise
        self.uri = self.daemon.register(Source(), "src")
        self.stop = False
        target = self.daemon.requestLoop if mode == "loop" else self._own_loop
        self.thread = threading.Thread(target=target, name="c10-wire-server", daemon=True)
        self.thread.start()
        self.traffic = self.proxy()      # the other client that keeps the server busy

    def _own_loop(self):
        """an application's event loop: select on the daemon's sockets, let the daemon handle the ready ones"""
        import select
        while not self.stop:
            try:
                ready, _, _ = select.select(list(self.daemon.sockets), [], [], 0.05)
            except (OSError, ValueError):
                continue
            if ready:
                self.daemon.events(ready)

    def proxy(self):
        from Pyro5 import client
        p = client.Proxy(self.uri)
        p._pyroHandshake = SECRET
        p._pyroTimeout = 30           # a hang becomes an error, never a stuck run
        return p

    def ping(self):
        self.traffic.ping()

    def barrier(self, cond, what):
        """round trips of the traffic client until cond() holds (cond is monotone), then one more: the server thread has
        finished the events() call in which it became true, housekeeping included"""
        for _ in range(MAX_BARRIER):
            if cond():
                self.ping()
                self.ping()
                return
            self.ping()
        raise RuntimeError("c10 wire rig: %s did not happen within %d round trips" % (what, MAX_BARRIER))

    def settle(self, open_conns):
        """everything the clients have done so far has been processed by the server: two round trips (whatever was sent before
        them has been dispatched: one server thread, in arrival order), the oneway call threads started so far have finished,
        and every connection the clients no longer hold has been seen ending (accepted - ended = still open)"""
        self.ping()
        self.ping()
        for t in threading.enumerate():
            if type(t).__name__ == "_OnewayCallThread":
                t.join(30)
        self.barrier(lambda: self.accepted - self.disconnects <= open_conns, "the end of the clients' closed connections")

    def _restore(self):
        (self.server.time, self.config.SERVERTYPE, self.config.POLLTIMEOUT, self.config.COMMTIMEOUT, self.config.ITER_STREAMING,
         self.config.ITER_STREAM_LIFETIME, self.config.ITER_STREAM_LINGER, self.ctxobj.correlation_id) = self.saved

    def close(self):
        try:
            try:
                self.traffic._pyroRelease()
            except Exception:
                pass
            self.daemon.streaming_responses = {}
            if self.mode == "loop":
                self.daemon.shutdown()
            else:
                self.stop = True
                self.thread.join(10)
                self.daemon.close()
            self.thread.join(10)
        finally:
            self._restore()
            shutil.rmtree(self.tmp, ignore_errors=True)


def gen_case(rng, base):
    cfg = {"streaming": True, "lifetime": rng.choice([0, 0, 8]), "linger": rng.choice([0, 3, 3])}
    nprox = rng.choice([1, 2, 2])
    nstreams = rng.choice([1, 2, 2, 3])
    corr = rng.choice(["none", "fixed", "fixed", "fresh"])   # correlation id the client puts on its requests
    ops = []
    opened = 0
    for _ in range(rng.choice([6, 12, 20, 30])):
        r = rng.random()
        if opened < nstreams and (r < 0.25 or opened == 0):
            items = base.gen_items(rng)
            wf = all(k == "v" for k, _ in items[:-1])
            ops.append(["open", rng.randrange(nprox), items, "gen" if (wf and rng.random() < 0.6) else "class",
                        "property" if rng.random() < 0.3 else "method"])
            opened += 1
        elif r < 0.62:
            ops.append(["next", rng.randrange(opened)])
        elif r < 0.67:
            ops.append(["close", rng.randrange(opened)])
        elif r < 0.77:
            ops.append(["release", rng.randrange(nprox)])
        elif r < 0.84:
            ops.append(["connect", rng.randrange(nprox)])
        elif r < 0.95:
            ops.append(["tick", rng.choice([1, 2, 4, 9])])
        else:
            ops.append(["ping"])
    if rng.random() < 0.7:
        # the classic: a connection with an open stream ends, the client stays away, comes back and asks for the next item
        p = rng.randrange(nprox)
        ops += [["release", p], ["tick", rng.choice([1, 2, 4, 9])], ["ping"], ["connect", p]] + [["next", s] for s in range(opened)]
    return {"cfg": cfg, "corr": corr, "nprox": nprox, "ops": ops}


def run_case(rig, case):
    """returns (transcript, failures)"""
    base = rig.base
    from Pyro5 import errors
    cfg = case["cfg"]
    rig.barrier(lambda: True, "settle")
    rig.traffic.reset(cfg["lifetime"], cfg["linger"], 1000)
    spec = base.Spec(cfg)
    fixed = uuid.UUID(int=0x5eed5eed5eed5eed5eed5eed5eed5eed)
    proxies = [rig.proxy() for _ in range(case["nprox"])]
    epoch = [0] * case["nprox"]          # connection number of each proxy (a reconnect is a new connection)
    iters, owner_proxy, sids = [], [], []
    fails, transcript = [], []

    def bad(sig, desc):
        if len(fails) < 3:
            fails.append((sig, desc))

    def conn_of(p):
        return (p, epoch[p])

    def connected(p):
        return proxies[p]._pyroConnection is not None

    def open_conns():
        return 1 + sum(1 for p in range(case["nprox"]) if connected(p))     # the traffic client + the connected proxies

    def set_corr():
        rig.ctxobj.correlation_id = {"none": None, "fixed": fixed, "fresh": uuid.uuid4()}[case["corr"]]

    def ensure_epoch(p):
        if not connected(p):
            epoch[p] += 1

    def after_request():
        spec.housekeeping(rig.clock.now)     # the multiplex server runs housekeeping after every batch of requests

    try:
        for op in case["ops"]:
            k = op[0]
            res = "-"
            if k == "open":
                p = op[1]
                via = op[4] if len(op) > 4 else "method"
                ensure_epoch(p)
                set_corr()
                items = [list(i) for i in op[2]]
                try:
                    if via == "property":
                        # the value of an exposed property: the `__getattr__` pseudo-method, same _streamResponse
                        proxies[p].prepare(items, op[3])
                        after_request()
                        it = proxies[p].stream
                    else:
                        it = proxies[p].gen(items, op[3])
                    if not hasattr(it, "streamId"):
                        raise TypeError("got %r" % (it,))
                except Exception as x:
                    it = None
                    bad("wire:open-failed", "a remote %s whose result is an iterator (streaming enabled) did not give the client a "
                        "stream: %s: %s; the server's table now holds %d stream(s) the client cannot reach"
                        % (via, type(x).__name__, str(x)[:120], len(rig.daemon.streaming_responses) - len([i for i in iters if i is not None])))
                iters.append(it)
                owner_proxy.append(p)
                sids.append(it.streamId if it is not None else "no-stream-%d" % len(sids))
                if it is not None:
                    spec.open(len(iters) - 1, [tuple(i) for i in op[2]], conn_of(p), rig.clock.now)
                after_request()
                res = "iter%d" % (len(iters) - 1) if it is not None else "open-failed"
                if len(set(sids)) != len(sids):
                    bad("wire:stream-id-reused", "two streams open under the same stream id %r (correlation id mode %s)"
                        % (sids[-1], case["corr"]))
            elif k in ("next", "close") and iters[op[1]] is None:
                pass
            elif k == "next":
                s = op[1]
                it = iters[s]
                local = it.proxy is None or it.proxy._pyroConnection is None
                set_corr()
                try:
                    res = "item%d" % next(it)
                except StopIteration:
                    res = "stop"
                except ValueError as x:
                    res = "raised%d" % x.args[1] if len(x.args) == 2 and x.args[0] == "src" else "EXC:ValueError"
                except errors.ConnectionClosedError:
                    res = "connclosed"
                except errors.PyroError as x:
                    res = "term" if "item stream terminated" in str(x) else "EXC:" + type(x).__name__
                except Exception as x:
                    res = "EXC:" + type(x).__name__
                if not local:
                    exp = spec.expected_next(s, conn_of(owner_proxy[s]))
                    ok = res == exp or (exp == "error" and (res == "term" or res.startswith("EXC:")))
                    if not ok:
                        bad("wire:wrong-reply", "next on stream %d over the wire: reply %s, the property demands %s "
                            "(clock %d, lifetime %s, linger %s, correlation ids %s)"
                            % (s, res, exp, rig.clock.now, cfg["lifetime"], cfg["linger"], case["corr"]))
                    after_request()
            elif k == "close":
                s = op[1]
                it = iters[s]
                live = it.proxy is not None and it.proxy._pyroConnection is not None
                diverged = live and it.pyroseq != it.proxy._pyroSeq
                set_corr()
                it.close()
                if live:
                    spec.close(s)
                    rig.settle(open_conns())       # incl. the temporary second connection of a diverged close
                    if sids[s] in rig.daemon.streaming_responses:
                        bad("wire:close-not-forwarded", "it.close() on stream %d (proxy connected, %s) returned, but the server never "
                            "received close_stream: it still remembers the stream and would go on serving it"
                            % (s, "sequence numbers diverged: closed through a temporary second connection"
                               if diverged else "same proxy"))
                        rig.traffic.drop(sids[s])
                    after_request()
            elif k == "release":
                p = op[1]
                if connected(p):
                    proxies[p]._pyroRelease()
                    rig.settle(open_conns())
                    spec.disconnect(conn_of(p), rig.clock.now)
                    after_request()
            elif k == "connect":
                p = op[1]
                if not connected(p):
                    ensure_epoch(p)
                    set_corr()
                    proxies[p]._pyroBind()
                    after_request()
            elif k == "tick":
                rig.ctxobj.correlation_id = None
                rig.traffic.tick(op[1])        # time passes while the other client keeps calling
                after_request()
            elif k == "ping":
                rig.ping()
                after_request()
            transcript.append(res)
        # quiescence: every client connection ends, both periods pass, the server stays busy: it must remember nothing
        rig.ctxobj.correlation_id = None
        for p in range(case["nprox"]):
            if connected(p):
                proxies[p]._pyroRelease()
                rig.settle(open_conns())
        rig.traffic.tick(max(cfg["lifetime"], cfg["linger"], 0) + 1)
        rig.barrier(lambda: True, "traffic")
        left = [sids.index(s) for s in list(rig.daemon.streaming_responses) if s in sids]
        orphans = [s for s in list(rig.daemon.streaming_responses) if s not in sids]
        if left:
            bad("wire:not-forgotten", "multiplex server under steady traffic: every stream's connection has ended and lifetime %s / "
                "linger %s have passed, but the server still remembers streams %s (housekeeping is not being run)"
                % (cfg["lifetime"], cfg["linger"], sorted(left)))
        if orphans and not fails:
            bad("wire:not-forgotten", "the server holds %d stream(s) that no client ever received" % len(orphans))
        return transcript, fails
    finally:
        rig.ctxobj.correlation_id = None
        for it in iters:
            if it is not None:
                it.proxy = None
        for p in proxies:
            try:
                p._pyroRelease()
            except Exception:
                pass
        rig.settle(1)


def _norm_case(c):
    c = dict(c)
    c["ops"] = [[o[0], o[1], [tuple(i) for i in o[2]]] + list(o[3:]) if o[0] == "open" else list(o) for o in c["ops"]]
    return c


def wire(ctx, n):
    from props import c10 as base
    rng = ctx.sub_rng("wire")
    for mode in ("loop", "events"):
        rig = WireRig(mode)
        try:
            cases = [(_norm_case(c["case"]), f) for f, c in base._corpus("wire")]
            cases += [(gen_case(rng, base), None) for _ in range(n // 2)]
            for case, origin in cases:
                transcript, fails = run_case(rig, case)
                ctx.evaluations += 1
                ctx.count("wire:%s/corr-%s/linger%s/lifetime%s" % (mode, case["corr"], "+" if case["cfg"]["linger"] > 0 else "0",
                                                                  "+" if case["cfg"]["lifetime"] > 0 else "0"))
                for r in transcript:
                    if r != "-":
                        ctx.count("wire-reply:" + r.rstrip("0123456789"))
                if sum(1 for r in transcript if r.startswith("item")) >= 2 and "term" in transcript:
                    ctx.nontriv(("wire", mode, repr(case)))
                for sig, desc in fails:
                    ctx.fail(sig, desc + " [server driven by %s]" % ("requestLoop()" if mode == "loop" else "the application's own loop through daemon.events()")
                             + ("" if origin is None else " (corpus %s)" % origin), {"kind": "wire", "mode": mode, "case": case})
        finally:
            rig.close()


def replay_case(c):
    rig = WireRig(c.get("mode", "loop"))
    try:
        transcript, fails = run_case(rig, _norm_case(c["case"]))
        print("transcript", transcript)
        for sig, desc in fails:
            print("VIOLATION reproduced [%s]: %s" % (sig, desc))
        return 1 if fails else 0
    finally:
        rig.close()
