"""
C09 — the real-code side: a daemon, dynamically built registered classes of every shape, fake
connections, calls through `Daemon._getInstance` (directly, or through `Daemon.handleRequest` with a
real wire message), the constructor/creator log, and the deterministic-scheduler race runner.

A *history* is   {"classes": [[mode, creator, truth, eq], ...], "nconn": n, "path": "direct"|"request",
                  "events": [["O", c, keep] | ["C", c, k, outcome] | ["X", c]]}
  mode    single | session | percall | invalid | default (not decorated: `register` supplies the default);
          a suffix "+sub" = the decorated class is a base class, what is registered and served is an undecorated subclass
  creator none | callable[:shape] | falsy    (falsy = a callable object whose truth value is False;
          shape = how the creator can be called: arg (default, needs the class) | default (clazz=None) | varargs (*args) |
          partial (functools.partial) | class (the creator is itself a class) — all but `arg` also work with NO argument)
  truth   plain | bool | len                 (how bool(instance) is decided; plain = always truthy)
  eq      default | byclass | alleq          (byclass: __eq__/__hash__ on the eq-class; alleq: __eq__ always True, unhashable)
  outcome ["ok", t, e] | ["wt", t, e] | ["rs"] | ["te"] | ["te1", t, e]
          what the constructor / creator does IF it is run for this call: ok / returns a foreign object / raises ArithmeticError /
          raises a TypeError from its own body on every run / raises that TypeError on its FIRST run of this call only (a second
          run — which correct code never makes — would succeed with (t, e)).  te and te1 are `raises` for the model.
Further outcomes: ["bx"] = the constructor / creator raises SystemExit (a BaseException that `except Exception` does not catch;
`raises` for the model); a 4th element "mx" on an ok/wt/te1 outcome = the remote METHOD raises KeyboardInterrupt after the
instance was handed out (the model's call ends when the instance is handed out: it is a served call).
path "job": every connection lives in a worker thread running the real thread-server job `svr_threads.ClientConnectionJob`
(handshake, request loop, disconnect) over a blocking in-memory socket, driven in lockstep by the harness.
Event ["Z", d] = `daemons[d].close()` is called; the Daemon object (its tables, its open connections) lives on.
Optional "bad_shutdown": [c, ...] — connections whose socket fails in shutdown() (peer reset) when they are closed.
Several daemons: optional "ndaemon": m (connection c belongs to daemon c % m; every daemon serves the SAME class objects) and
events ["D", d] = daemon d is shut down and a new Daemon object takes its place (its connections are gone with it).
`flatten` renames (daemon, generation, class) and (connection, generation) to the plain class / connection numbers of a
one-daemon history: daemons share nothing, so the model of m daemons is the model of one daemon over disjoint labels.
"""
import functools
import threading

import common

common.repo_on_path()

FAIL = ArithmeticError          # what user code raises when its outcome is "rs"
MARK = "c09 user code fails"    # message of the TypeError user code raises from its own body (outcomes te / te1)
FAILING = ("rs", "te", "te1", "bx")   # outcomes under which a (first) run of user code raises


def base_creator(creator):
    return creator.split(":")[0]


def flatten(hist):
    """-> one-daemon history over renamed labels + bookkeeping (identity for a one-daemon history without D events)"""
    m = hist.get("ndaemon", 1)
    ncls = len(hist["classes"])
    nconn = hist["nconn"]
    cls_info = [(d, 0, k) for d in range(m) for k in range(ncls)]
    conn_info = [(c, 0) for c in range(nconn)]
    cls_id = {x: i for i, x in enumerate(cls_info)}
    conn_id = {x: i for i, x in enumerate(conn_info)}
    gen = [0] * m
    events, kept = [], []
    for j, ev in enumerate(hist["events"]):
        if ev[0] == "Z":
            continue
        if ev[0] == "D":
            d = ev[1]
            gen[d] += 1
            for k in range(ncls):
                cls_id[(d, gen[d], k)] = len(cls_info)
                cls_info.append((d, gen[d], k))
            for c in range(nconn):
                if c % m == d:
                    conn_id[(c, gen[d])] = len(conn_info)
                    conn_info.append((c, gen[d]))
            continue
        kept.append(j)
        d = ev[1] % m
        fc = conn_id[(ev[1], gen[d])]
        if ev[0] == "C":
            events.append(["C", fc, cls_id[(d, gen[d], ev[2])], ev[3]])
        else:
            events.append([ev[0], fc] + list(ev[2:]))
    return {"classes": [hist["classes"][k] for _, _, k in cls_info], "nconn": len(conn_info), "events": events,
            "kept": kept, "cls_info": cls_info, "conn_info": conn_info, "cls_id": cls_id, "conn_id": conn_id,
            "path": hist.get("path", "direct"), "ndaemon": m}


class FakeSock:
    """in-memory socket: delivers `inbuf`, collects what is sent"""

    def __init__(self, inbuf=b"", fail_shutdown=False):
        self.fail_shutdown = fail_shutdown
        self.inbuf = bytes(inbuf)
        self.pos = 0
        self.out = bytearray()
        self.closed = 0

    def feed(self, data):
        self.inbuf = self.inbuf[self.pos:] + bytes(data)
        self.pos = 0

    def recv(self, n, flags=0):
        chunk = self.inbuf[self.pos:self.pos + n]
        self.pos += len(chunk)
        return chunk

    def sendall(self, data):
        self.out += bytes(data)

    def send(self, data):
        self.out += bytes(data)
        return len(data)

    def gettimeout(self):
        return None

    def settimeout(self, t):
        pass

    def getpeername(self):
        return ("fake", 0)

    def shutdown(self, how):
        if self.fail_shutdown:
            raise OSError(107, "Transport endpoint is not connected")

    def close(self):
        self.closed += 1

    def fileno(self):
        return -1


class BlockSock(FakeSock):
    """in-memory socket whose recv BLOCKS until the harness feeds bytes or ends the stream (for a worker thread)"""

    def __init__(self, fail_shutdown=False):
        FakeSock.__init__(self, b"", fail_shutdown)
        self.cond = threading.Condition()
        self.eof = False

    def feed(self, data):
        with self.cond:
            FakeSock.feed(self, data)
            self.cond.notify_all()

    def end(self):
        with self.cond:
            self.eof = True
            self.cond.notify_all()

    def recv(self, n, flags=0):
        with self.cond:
            if not self.cond.wait_for(lambda: self.pos < len(self.inbuf) or self.eof, timeout=30):
                raise OSError(110, "harness: nothing fed")
            return FakeSock.recv(self, n, flags)

    def sendall(self, data):
        with self.cond:
            self.out += bytes(data)
            self.cond.notify_all()

    def send(self, data):
        self.sendall(data)
        return len(data)


class JobConn:
    """one client connection served by the REAL thread-server job in a worker thread, in lockstep with the harness"""

    def __init__(self, world, daemon, keep_open, fail_shutdown):
        from Pyro5 import svr_threads, protocol, serializers, core
        self.world = world
        self.sock = BlockSock(fail_shutdown)
        self.job = svr_threads.ClientConnectionJob(self.sock, ("fake", 0), daemon)
        self.job.csock.keep_open = bool(keep_open)
        self.exc = None
        self.done = threading.Event()
        self.seq = 0

        def work():
            try:
                self.job()
            except BaseException as x:      # noqa: what kills the worker is recorded, the harness judges it
                self.exc = x
            finally:
                self.done.set()
                with self.sock.cond:
                    self.sock.cond.notify_all()
        self.thread = threading.Thread(target=work, name="c09-job", daemon=True)
        self.thread.start()
        self.ident = self.thread.ident
        ser = serializers.serializers["serpent"]
        data = ser.dumps({"handshake": "hello", "object": core.DAEMON_NAME})
        self.sock.feed(protocol.SendingMessage(protocol.MSG_CONNECT, 0, 0, ser.serializer_id, data).data)
        if self._reply() is None:
            raise RuntimeError("c09 job rig: handshake got no reply (%r)" % (self.exc,))

    @property
    def pyroInstances(self):
        return self.job.csock.pyroInstances

    @property
    def alive(self):
        return not self.done.is_set()

    def _reply(self):
        """wait for one complete reply message (-> ReceivingMessage) or for the death of the worker (-> None)"""
        from Pyro5 import protocol, socketutil, errors

        def parse():
            try:
                return protocol.recv_stub(socketutil.SocketConnection(FakeSock(bytes(self.sock.out)), keep_open=True))
            except (errors.ConnectionClosedError, errors.ProtocolError):
                return None
        with self.sock.cond:
            if not self.sock.cond.wait_for(lambda: parse() is not None or self.done.is_set(), timeout=30):
                raise RuntimeError("c09 job rig: worker neither replied nor ended")
            msg = parse()
            del self.sock.out[:]
        return msg

    def invoke(self, oid):
        from Pyro5 import protocol, serializers
        ser = serializers.serializers["serpent"]
        self.seq = (self.seq + 1) % 65536
        msg = protocol.SendingMessage(protocol.MSG_INVOKE, 0, self.seq, ser.serializer_id, ser.dumpsCall(oid, "who", [], {}))
        self.sock.feed(msg.data)
        return self._reply()

    def close(self):
        """the client goes away: end of stream; the job must disconnect and close the connection itself"""
        self.sock.end()
        if not self.done.wait(30):
            raise RuntimeError("c09 job rig: worker did not end after EOF")


class FalsyCreator:
    """a perfectly good callable creator that happens to be falsy"""

    def __init__(self, world, k):
        self.world, self.k = world, k

    def __bool__(self):
        return False

    def __call__(self, clazz):
        self.world.creator_calls[self.k] += 1
        return clazz()


class World:
    """one daemon; `new_classes` builds fresh classes (so the daemon's single-table has no entry for them)"""

    def make_daemon(self):
        from Pyro5 import config, server
        old = config.SERVERTYPE
        config.SERVERTYPE = "multiplex"       # no worker threads needed: requests are handed to handleRequest directly
        try:
            return server.Daemon(host="127.0.0.1", port=0)
        finally:
            config.SERVERTYPE = old

    @property
    def daemon(self):
        return self.daemons[0]

    def ensure_daemons(self, m):
        while len(self.daemons) < m:
            self.daemons.append(self.make_daemon())

    def restart_daemon(self, d):
        """daemon d is shut down for real; a brand-new Daemon object serves in its place"""
        old = self.daemons[d]
        self.closed.discard(d)
        old.close()
        self.dead.append(old)                 # kept referenced: its id() is not recycled, its tables can still be inspected
        self.daemons[d] = self.make_daemon()
        self.registered = [(dd, k) for dd, k in self.registered if dd != d]

    def __init__(self):
        self.daemons = [self.make_daemon()]
        self.dead = []
        self.closed = set()        # indices of live-pool daemons on which close() was called during the current history
        self.flags = {}            # thread ident -> {"runs": user-code runs during the current call, "via_creator": bool}
        self.sched = None
        self.serial = 0
        self.objects = {}          # serial -> object (keeps every object alive: identities are never recycled)
        self.ctor_log = []         # (serial, thread ident) of every object constructed, in order
        self.plan = {}             # thread ident -> outcome for the creation that thread may trigger
        self.creator_calls = {}    # class index -> number of creator invocations
        self.classes = []
        self.registered = []
        self.seq = 0

    def close(self):
        self.cleanup_classes()
        for d in self.daemons:
            d.close()
        self.daemons = []

    # ---- objects ---------------------------------------------------------------------------
    def _new_serial(self, obj):
        self.serial += 1
        self.objects[self.serial] = obj
        self.ctor_log.append((self.serial, threading.get_ident()))
        return self.serial

    def _plan(self):
        return self.plan[threading.get_ident()]

    def _begin_call(self, outcome, ident=None):
        me = ident or threading.get_ident()
        self.plan[me] = outcome
        self.flags[me] = {"runs": 0, "via_creator": False, "served": None}

    def _method_runs(self, serial):
        """every remote method / identity query goes through here: remembers who served, raises for a "mx" outcome"""
        me = threading.get_ident()
        f = self.flags.get(me)
        if f is None:
            return
        f["served"] = serial
        p = self.plan.get(me)
        if p is not None and len(p) > 3 and p[3] == "mx":
            raise KeyboardInterrupt("c09 method is interrupted")

    def _user_code_runs(self):
        """called at the start of every run of the code that creates (creator, or constructor when no creator is used):
        raises the TypeError of outcomes te / te1"""
        f = self.flags[threading.get_ident()]
        f["runs"] += 1
        p = self._plan()
        if p[0] == "bx":
            raise SystemExit("c09 user code exits")
        if p[0] == "te" or (p[0] == "te1" and f["runs"] == 1):
            raise TypeError(MARK)

    def new_classes(self, specs):
        """specs: [mode, creator, truth, eq] per class -> list of class objects (kept in self.classes)"""
        from Pyro5 import server
        self.cleanup_classes()
        world = self
        out = []

        @server.expose
        class Foreign:
            """what a creator / __new__ returns when it returns the wrong type"""
            def __init__(self, t, e):
                self._t, self._e = t, e
                self._serial = world._new_serial(self)

            def __bool__(self):           # as falsy / truthy as the outcome says
                return self._t

            def who(self):
                world._method_runs(self._serial)
                return self._serial
        self.foreign = Foreign
        for k, (mode, creator, truth, eq) in enumerate(specs):
            ns = {}

            def __new__(cls, _k=k):
                if world.sched is not None:
                    world.sched.point(("ctor", _k))
                p = world._plan()
                if p[0] == "wt":
                    return Foreign(bool(p[1]), p[2])          # not an instance of cls: __init__ is skipped
                return object.__new__(cls)

            def __init__(self):
                p = world._plan()
                if p[0] == "rs":
                    raise FAIL("constructor fails")
                if not world.flags[threading.get_ident()]["via_creator"]:
                    world._user_code_runs()
                self._t, self._e = bool(p[1]), p[2]
                self._serial = world._new_serial(self)

            def who(self):
                world._method_runs(self._serial)
                return self._serial
            ns["__new__"] = __new__
            ns["__init__"] = __init__
            ns["who"] = who
            if truth == "bool":
                ns["__bool__"] = lambda self: self._t
            elif truth == "len":
                ns["__len__"] = lambda self: 3 if self._t else 0
            if eq == "byclass":
                ns["__eq__"] = lambda self, other: getattr(other, "_e", None) == self._e
                ns["__hash__"] = lambda self: hash(self._e)
            elif eq == "alleq":
                ns["__eq__"] = lambda self, other: True
                ns["__hash__"] = None
            cls = server.expose(type("K%d" % k, (object,), ns))
            self.creator_calls[k] = 0
            if base_creator(creator) == "callable":
                def body(clazz, _k=k):
                    world.creator_calls[_k] += 1
                    if world.sched is not None:
                        world.sched.point(("creator", _k))
                    p = world._plan()
                    if p[0] == "rs":
                        raise FAIL("creator fails")
                    world._user_code_runs()
                    if p[0] == "wt":
                        return Foreign(bool(p[1]), p[2])
                    f = world.flags[threading.get_ident()]
                    f["via_creator"] = True
                    try:
                        return (clazz or world.classes[_k])()
                    finally:
                        f["via_creator"] = False
                shape = creator.split(":")[1] if ":" in creator else "arg"
                if shape == "arg":
                    def cr(clazz, _body=body):
                        return _body(clazz)
                elif shape == "default":
                    def cr(clazz=None, _body=body):
                        return _body(clazz)
                elif shape == "varargs":
                    def cr(*args, _body=body):
                        return _body(args[0] if args else None)
                elif shape == "partial":
                    def _p(tag, clazz=None, _body=body):
                        return _body(clazz)
                    cr = functools.partial(_p, "tag")
                elif shape == "class":
                    class cr:                           # calling the class IS the creator call
                        def __new__(cls, clazz=None, _body=body):
                            return _body(clazz)
                else:
                    raise ValueError(shape)
            elif creator == "falsy":
                cr = FalsyCreator(world, k)
            else:
                cr = None
            sub = mode.endswith("+sub")
            mode = mode.split("+")[0]
            if mode != "default":
                real_mode = mode if mode != "invalid" else "session"
                cls = server.behavior(instance_mode=real_mode, instance_creator=cr)(cls)
                if mode == "invalid":
                    cls._pyroInstancing = ("weird", cr)       # by hand: the decorator refuses it
                if sub:
                    cls = type("Sub%d" % k, (cls,), {})       # inherits its instancing from the decorated base
            out.append(cls)
        self.classes = out
        self.specs = [list(s) for s in specs]
        return out

    def register(self, k, d=0):
        """daemon.register (supplies the default instancing); idempotent per (daemon, class)"""
        cls = self.classes[k]
        if (d, k) not in self.registered:
            self.daemons[d].register(cls, "c09obj%d" % k)
            self.registered.append((d, k))
        return "c09obj%d" % k

    def cleanup_classes(self):
        import serpent
        from Pyro5 import serializers
        for d, k in self.registered:
            try:
                self.daemons[d].unregister("c09obj%d" % k)
            except Exception:
                pass
        for cls in list(self.classes) + ([self.foreign] if getattr(self, "foreign", None) else []):
            for dm in self.daemons + self.dead:
                dm._pyroInstances.pop(cls, None)
            try:
                serpent.unregister_class(cls)
            except Exception:
                pass
            for ser in (serializers.JsonSerializer, serializers.MsgpackSerializer):
                d = getattr(ser, "_%s__type_replacements" % ser.__name__, None)
                if isinstance(d, dict):
                    d.pop(cls, None)
        self.dead = []
        for d in sorted(self.closed):             # a daemon that was closed by a history is not reused
            if d < len(self.daemons):
                self.daemons[d] = self.make_daemon()
        self.closed = set()
        while len(self.daemons) > 3:          # keep a small pool of live daemons between histories
            self.daemons.pop().close()
        self.classes = []
        self.registered = []
        self.flags = {}
        self.objects = {}
        self.ctor_log = []
        self.creator_calls = {}
        self.plan = {}

    # ---- one call ----------------------------------------------------------------------------
    def call_direct(self, k, conn, outcome, d=0):
        """-> ('S', serial) | ('TE',) | ('RS',) | ('DE',) | ('EXC', name)"""
        from Pyro5 import errors
        self._begin_call(outcome)
        try:
            obj = self.daemons[d]._getInstance(self.classes[k], conn)
            return ("S", obj.who())
        except TypeError as x:
            return ("RS",) if MARK in str(x) else ("TE",)
        except FAIL:
            return ("RS",)
        except errors.DaemonError:
            return ("DE",)
        except Exception as x:          # anything else is not in the model's alphabet
            return ("EXC", type(x).__name__)
        except (SystemExit, KeyboardInterrupt):
            return self._interrupted()

    def _interrupted(self, ident=None):
        """user code raised a BaseException: in the method (an instance had been handed out) or during the creation"""
        served = self.flags[ident or threading.get_ident()]["served"]
        return ("S", served) if served is not None else ("RS",)

    def call_request(self, k, conn, outcome, d=0):
        """the same call as a real INVOKE message through Daemon.handleRequest"""
        from Pyro5 import errors, protocol, serializers
        oid = self.register(k, d)
        self._begin_call(outcome)
        ser = serializers.serializers["serpent"]
        self.seq = (self.seq + 1) % 65536
        data = ser.dumpsCall(oid, "who", [], {})
        msg = protocol.SendingMessage(protocol.MSG_INVOKE, 0, self.seq, ser.serializer_id, data)
        conn.sock.feed(msg.data)
        del conn.sock.out[:]
        try:
            self.daemons[d].handleRequest(conn)
        except (SystemExit, KeyboardInterrupt):
            return self._interrupted()
        from Pyro5 import socketutil
        reply = protocol.recv_stub(socketutil.SocketConnection(FakeSock(bytes(conn.sock.out)), keep_open=True),
                                   [protocol.MSG_RESULT])
        if reply.seq != self.seq:
            return ("EXC", "seq")
        return self._decode_reply(reply)

    def call_job(self, k, jc, outcome, d=0):
        """the same call as an INVOKE message on a connection that is served by the real thread-server job"""
        oid = self.register(k, d)
        self._begin_call(outcome, jc.ident)
        reply = jc.invoke(oid) if jc.alive else None
        if reply is None:                      # the worker died: a BaseException went through the job
            return self._interrupted(jc.ident) if isinstance(jc.exc, (SystemExit, KeyboardInterrupt)) \
                else ("EXC", type(jc.exc).__name__ if jc.exc else "worker-ended")
        return self._decode_reply(reply)

    def _decode_reply(self, reply):
        from Pyro5 import errors, protocol, serializers
        ser = serializers.serializers["serpent"]
        val = ser.loads(reply.data)
        if reply.flags & protocol.FLAGS_EXCEPTION:
            if isinstance(val, TypeError):
                return ("RS",) if MARK in str(val) else ("TE",)
            if isinstance(val, FAIL):
                return ("RS",)
            if isinstance(val, errors.DaemonError):
                return ("DE",)
            return ("EXC", type(val).__name__)
        return ("S", val)


class HistoryRun:
    """runs one history on the real code and records what each event observed (one entry per event that is not a "D")"""

    def __init__(self, world, hist):
        from Pyro5 import socketutil
        self.world = world
        self.hist = hist
        self.flat = flatten(hist)
        self.m = self.flat["ndaemon"]
        self.sc = socketutil.SocketConnection
        world.new_classes(hist["classes"])
        world.ensure_daemons(self.m)
        self.gen = [0] * self.m
        self.dobj = {(d, 0): world.daemons[d] for d in range(self.m)}     # (daemon, generation) -> Daemon object
        self.retired = []
        self.conns = {}            # flat connection id -> SocketConnection (or JobConn on the job path)
        self.canon = {}            # serial -> order of first appearance among the objects that served
        self.obs = []
        self._register_defaults(range(self.m))

    def _register_defaults(self, daemons):
        for k, s in enumerate(self.hist["classes"]):
            if s[0] == "default" or s[0].endswith("+sub"):
                for d in daemons:
                    self.world.register(k, d)      # `register` is what gives an undecorated class its instancing

    def new_conn(self, c, keep):
        if self.hist.get("path") == "job":
            return JobConn(self.world, self.world.daemons[c % self.m], keep, c in self.hist.get("bad_shutdown", ()))
        return self.sc(self.sock(c), keep_open=bool(keep))

    def conn(self, c, for_call=False):
        fc = self.flat["conn_id"][(c, self.gen[c % self.m])]
        if fc not in self.conns or (for_call and isinstance(self.conns[fc], JobConn) and not self.conns[fc].alive):
            # a label never opened, or (job path) a connection whose worker has ended: the next client is a new connection;
            # for the model the closed connection has an empty table, which is the same thing
            if fc in self.conns:
                self.retired.append(self.conns[fc])
            self.conns[fc] = self.new_conn(c, False)
        return self.conns[fc]

    def sock(self, c):
        return FakeSock(fail_shutdown=c in self.hist.get("bad_shutdown", ()))

    def run(self):
        w = self.world
        path = self.hist.get("path", "direct")
        for ev in self.hist["events"]:
            if ev[0] == "D":
                d = ev[1]
                w.restart_daemon(d)       # the old daemon's connection objects are simply never used again (new labels)
                self.gen[d] += 1
                self.dobj[(d, self.gen[d])] = w.daemons[d]
                self._register_defaults([d])
            elif ev[0] == "Z":
                w.daemons[ev[1]].close()          # Daemon.close(): the object, its tables and its connections live on
                w.closed.add(ev[1])
            elif ev[0] == "O":
                fc = self.flat["conn_id"][(ev[1], self.gen[ev[1] % self.m])]
                if fc in self.conns:
                    self.retired.append(self.conns[fc])
                self.conns[fc] = self.new_conn(ev[1], ev[2])
                self.obs.append(("-",))
            elif ev[0] == "X":
                cn = self.conn(ev[1])
                cn.close()
                self.obs.append(("-", len(cn.pyroInstances), bool(cn.job.csock.keep_open if isinstance(cn, JobConn)
                                                                 else cn.keep_open)))
            else:
                _, c, k, outcome = ev
                conn = self.conn(c, for_call=True)
                before_ctor = len(w.ctor_log)
                before_cc = w.creator_calls[k]
                call = w.call_job if path == "job" else w.call_request if path == "request" else w.call_direct
                r = call(k, conn, outcome, c % self.m)
                cc = w.creator_calls[k] - before_cc
                if r[0] == "S":
                    serial = r[1]
                    obj = w.objects.get(serial)
                    created = any(s == serial for s, _ in w.ctor_log[before_ctor:])
                    if serial not in self.canon:
                        self.canon[serial] = len(self.canon)
                    self.obs.append(("S", self.canon[serial], int(bool(obj._t)), obj._e, int(created), cc, serial,
                                     len(w.ctor_log) - before_ctor))
                elif r[0] == "RS":
                    self.obs.append(("RS", cc))
                elif r[0] == "TE":
                    self.obs.append(("TE", cc))
                else:
                    self.obs.append(r)
        self.line = self.canonical()
        for cn in list(self.conns.values()) + self.retired:       # job path: let every worker end
            if isinstance(cn, JobConn) and cn.alive:
                cn.job.csock.keep_open = False
                cn.close()
        return self.obs

    def canonical(self):
        """the line the model must print for the flattened history"""
        if getattr(self, "line", None) is not None:
            return self.line
        out = []
        for o in self.obs:
            if o[0] == "S":
                out.append("S%d:%d:%d:%d:%s" % (o[1], o[2], o[3], o[4], o[5] if o[5] in (0, 1) else "cc%d" % o[5]))
            elif o[0] == "RS":
                out.append("RS%s" % (o[1] if o[1] in (0, 1) else "cc%d" % o[1]))
            elif o[0] == "TE":
                out.append("TE" if o[1] == 1 else "TEcc%d" % o[1])
            elif o[0] == "EXC":
                out.append("EXC:" + o[1])
            else:
                out.append(o[0])
        w = self.world
        created = sum(1 for o in self.obs if o[0] == "S" and o[4])
        st = ["n=%d" % created]
        ncls = len(self.hist["classes"])
        for fk, (d, g, k) in enumerate(self.flat["cls_info"]):
            dm = self.dobj.get((d, g))
            inst = dm._pyroInstances.get(w.classes[k]) if dm is not None else None
            if inst is not None:
                st.append("s%d=%s" % (fk, self.canon.get(inst._serial, "?%d" % inst._serial)))
        for fc, (c, g) in enumerate(self.flat["conn_info"]):
            if fc in self.conns:
                for k in range(ncls):
                    inst = self.conns[fc].pyroInstances.get(w.classes[k])
                    if inst is not None:
                        st.append("c%d.%d=%s" % (fc, self.flat["cls_id"][(c % self.m, g, k)],
                                                 self.canon.get(inst._serial, "?%d" % inst._serial)))
        return ";".join(out) + " | " + " ".join(st)


MODEL_MODE = {"default": "session"}


def hist_line(hist):
    """the driver input line of a history (flattened to one daemon)"""
    if "cls_info" not in hist:
        hist = flatten(hist)
    toks = ["hist", str(len(hist["classes"]))]
    for mode, creator, truth, eq in hist["classes"]:
        mode = mode.split("+")[0]
        toks += [MODEL_MODE.get(mode, mode), "none" if mode == "default" else base_creator(creator)]
    toks += [str(hist["nconn"]), str(len(hist["events"]))]
    for ev in hist["events"]:
        if ev[0] == "O":
            toks += ["O", str(ev[1]), "1" if ev[2] else "0"]
        elif ev[0] == "X":
            toks += ["X", str(ev[1])]
        else:
            o = ev[3]
            toks += ["C", str(ev[1]), str(ev[2])] + (["rs"] if o[0] in FAILING else [o[0], str(int(o[1])), str(o[2])])   # a 4th "mx" is not the model's business
    return " ".join(toks)


# ---- the property itself, judged on the real observations only --------------------------------------
def judge_history(hist, obs):
    """returns None or (signature, description).  Uses nothing but the history and what the real code did.
    A history over several daemons is judged in its flattened form: one slot per (daemon object, class)."""
    if "cls_info" not in hist:
        hist = flatten(hist)
    cls_info = hist["cls_info"]
    classes = hist["classes"]
    single = {}            # k -> (serial, truthy)
    sess = {}              # (c, k) -> (serial, truthy)   for the current life of connection label c
    keep = {}
    owner = {}             # serial -> slot that may hand it out
    seen = set()           # every serial that ever served
    dropped = {}           # (c, k) -> serial that served it until its connection was closed
    for j, (ev, o) in enumerate(zip(hist["events"], obs)):
        if ev[0] == "O":
            keep[ev[1]] = bool(ev[2])
            for key in [key for key in sess if key[0] == ev[1]]:
                del sess[key]
            continue
        if ev[0] == "X":
            if len(o) > 1 and o[1] and not o[2]:
                return ("session-not-dropped-at-close",
                        "event %d: connection %d has ended (closed) but still holds %d session instance(s)"
                        % (hist["kept"][j], hist["conn_info"][ev[1]][0], o[1]))
            if not keep.get(ev[1], False):
                for key in [key for key in sess if key[0] == ev[1]]:
                    dropped[key] = sess[key][0]
                    del sess[key]
            continue
        _, c, k, outcome = ev
        mode, creator = classes[k][0].split("+")[0], base_creator(classes[k][1])
        if mode == "default":
            mode, creator = "session", "none"
        dd, dg, dk = cls_info[k]
        where = "event %d (call on class %d %s/%s, connection %d%s)" % (
            hist["kept"][j], dk, mode, classes[k][1], hist["conn_info"][c][0],
            ", daemon %d generation %d" % (dd, dg) if hist["ndaemon"] > 1 or dg else "")
        if o[0] == "EXC":
            return ("internal-error:" + o[1], "%s failed with unexpected %s" % (where, o[1]))
        if o[0] == "S":
            _, idx, t, e, created, cc, serial, nctor = o
            slot = ("single", k) if mode == "single" else ("sess", c, k) if mode == "session" else ("call", j)
            table = single if mode == "single" else sess if mode == "session" else None
            key = k if mode == "single" else (c, k)
            if table is not None and key in table:
                prev, prev_t = table[key]
                if prev != serial:
                    kind = "falsy-instance-recreated" if not prev_t else "second-instance"
                    return ("%s:%s" % (kind, mode),
                            "%s was served by a new instance although instance #%d (%s) already serves this %s"
                            % (where, prev, "falsy" if not prev_t else "truthy",
                               "class in this daemon" if mode == "single" else "connection"))
                if created:
                    return ("created-on-reuse:" + mode, "%s constructed an object although one was in the table" % where)
            else:
                # first use of the slot (or percall): must be a brand-new object
                if serial in seen or not created:
                    what = {"single": "single-reused-foreign", "session": "session-not-private",
                            "percall": "percall-reused"}[mode if mode in ("single", "session", "percall") else "percall"]
                    if mode == "session" and dropped.get((c, k)) == serial:
                        what = "session-not-dropped"
                    prev_owner = owner.get(serial)
                    if mode == "single" and prev_owner and prev_owner[0] == "single" and cls_info[prev_owner[1]][2] == dk \
                            and cls_info[prev_owner[1]][:2] != (dd, dg):
                        od, og, _ = cls_info[prev_owner[1]]
                        return ("single-shared-across-daemons",
                                "%s was served by instance #%d, the single instance of the same class in %s daemon %d "
                                "(generation %d): the instance is per process, not per daemon (created=%d, creator calls=%d)"
                                % (where, serial, "the closed" if od == dd else "another", od, og, created, cc))
                    return (what, "%s was served by instance #%d which already served %r" % (where, serial, owner.get(serial)))
                if table is not None:
                    table[key] = (serial, bool(t))
            if serial in owner and owner[serial] != slot:
                return ("instance-shared", "%s: instance #%d belongs to %r" % (where, serial, owner[serial]))
            owner[serial] = slot
            seen.add(serial)
            if created and creator == "callable" and outcome[0] == "wt":
                return ("creator-foreign-object-served",
                        "%s: the instance creator handed back an object that is not an instance of the registered class and the "
                        "call was served by it (no 'different type' TypeError)" % where)
            if created and outcome[0] in FAILING:
                return ("creation-error-hidden",
                        "%s: the creation attempt of this call fails (outcome %r) but the caller was served by a new instance; "
                        "user code ran %d time(s), creator invoked %d time(s)" % (where, outcome, nctor, cc))
            if nctor > 1:
                return ("creator-count", "%s constructed %d objects for one call" % (where, nctor))
            want = 1 if (created and creator == "callable") else 0
            if creator != "falsy" and cc != want:
                return ("creator-count", "%s: creator invoked %d time(s), expected %d (created=%d)" % (where, cc, want, created))
        elif o[0] == "RS" or o[0] == "TE":
            cc = o[1]
            if creator == "callable" and cc != 1:
                return ("creator-count", "%s: one failing creation attempt invoked the creator %d times" % (where, cc))
            if creator == "none" and cc != 0:
                return ("creator-count", "%s: a creator ran for a class without creator" % where)
            if outcome[0] in FAILING and o[0] == "TE":
                return ("creation-error-replaced", "%s: user code raised its own error (outcome %r) but the caller got the "
                        "daemon's 'different type' TypeError instead" % (where, outcome))
            if o[0] == "TE" and creator != "callable":
                return ("typeerror-without-creator", "%s raised TypeError without a creator" % where)
        elif o[0] == "DE":
            if mode != "invalid":
                return ("daemonerror-valid-mode", "%s raised DaemonError for a valid mode" % where)
    return None


# ---- races on a `single` class under the deterministic scheduler ------------------------------------
def run_race(world, policy, prog, S):
    """
    prog = {"classes": [[creator, truth, eq], ...], "threads": [[[k, outcome], ...], ...]}
    All classes are `single`.  Thread t uses its own connection.  Returns (sched, outcome) with
    outcome = (sched outcome, per-thread results, lock acquisition order [(tid), ...], number of objects per class).
    """
    from Pyro5 import socketutil
    sc = S.Sched(policy)
    world.new_classes([["single", c, t, e] for c, t, e in prog["classes"]])
    daemon = world.daemon
    acq = []

    class LogLock(S.ILock):
        def acquire(self, blocking=True, timeout=-1):
            r = S.ILock.acquire(self, blocking, timeout)
            if r:
                acq.append(self.sched.me())
            return r
    from Pyro5 import server as _server
    POINTS = ["get", "__getitem__", "__setitem__", "__contains__", "setdefault", "pop"]
    missing = object()
    saved = {"create_single_instance_lock": getattr(daemon, "create_single_instance_lock", missing)}
    daemon.create_single_instance_lock = LogLock(sc, "create_single_instance_lock")
    # every plain dict the daemon object holds becomes a dict whose accesses are yield points (on today's code only
    # `_pyroInstances` is touched by `_getInstance`); locks that the daemon code creates while the race runs are scheduler locks
    for name, val in list(vars(daemon).items()):
        if type(val) is dict:
            saved[name] = val
            setattr(daemon, name, S.instrument(sc, dict(val) if name != "_pyroInstances" else {}, name, POINTS))
    real_threading = _server.threading
    counter = [0]

    class ThreadingShim:
        def __getattr__(self, name):
            return getattr(real_threading, name)

        def Lock(self):
            counter[0] += 1
            return S.ILock(sc, "lock%d" % counter[0])

        def RLock(self):
            counter[0] += 1
            return S.ILock(sc, "rlock%d" % counter[0], reentrant=True)
    _server.threading = ThreadingShim()
    world.sched = sc
    results = [[None] * len(p) for p in prog["threads"]]
    try:
        def mk(t, calls):
            conn = socketutil.SocketConnection(FakeSock(), keep_open=False)

            def body():
                for j, call in enumerate(calls):
                    if call[0] == "L":                 # the daemon's request loop is (re-)entered and left at once
                        daemon.requestLoop(loopCondition=lambda: False)
                        results[t][j] = ("L",)
                        continue
                    k, outcome = call
                    before = len(world.ctor_log)
                    r = world.call_direct(k, conn, outcome)
                    if r[0] == "S":
                        me = threading.get_ident()
                        created = any(s == r[1] and th == me for s, th in world.ctor_log[before:])
                        r = ("S", r[1], int(created))
                    results[t][j] = r
            return body
        for t, calls in enumerate(prog["threads"]):
            sc.spawn(mk(t, calls))
        outcome = sc.run()
        per_class = {}
        for rs, calls in zip(results, prog["threads"]):
            for r, call in zip(rs, calls):
                if r and r[0] == "S":
                    per_class.setdefault(call[0], set()).add(r[1])
        objs = {s: (int(bool(world.objects[s]._t)), world.objects[s]._e) for ss in per_class.values() for s in ss}
        return sc, (outcome, [list(r) for r in results], list(acq), {k: sorted(v) for k, v in per_class.items()}, objs)
    finally:
        world.sched = None
        _server.threading = real_threading
        for name, val in saved.items():
            if val is missing:
                delattr(daemon, name)
            else:
                setattr(daemon, name, val)


def judge_race(prog, out):
    outcome, results, acq, per_class, objs = out
    if outcome != "ok":
        return ("single-race:" + outcome, "the schedule ends in %s" % outcome)
    for rs in results:
        for r in rs:
            if r is None:
                return ("single-race:unfinished", "a call did not return")
            if r[0] == "EXC":
                return ("single-race:internal-error", "a call failed with %s" % r[1])
    for k, serials in per_class.items():
        if len(serials) > 1:
            return ("single-race:two-instances", "class %d was served by %d different instances %r" % (k, len(serials), serials))
    for k in per_class:
        made = sum(1 for rs, calls in zip(results, prog["threads"]) for r, call in zip(rs, calls)
                   if call[0] == k and r[0] == "S" and r[2])
        if made > 1:
            return ("single-race:two-instances", "class %d: %d calls each constructed the instance" % (k, made))
    return None


def race_model_line(prog, out):
    """the sequential history in lock-acquisition order (connection = thread) and what the real calls returned, canonically"""
    outcome, results, acq, per_class, objs = out
    calls_of = [[c for c in p if c[0] != "L"] for p in prog["threads"]]
    res_of = [[r for r, c in zip(rs, p) if c[0] != "L"] for rs, p in zip(results, prog["threads"])]
    total = sum(len(p) for p in calls_of)
    if outcome != "ok" or len(acq) != total:
        return None, "lock acquired %d times for %d calls (%s)" % (len(acq), total, outcome)
    nxt = [0] * len(prog["threads"])
    events, reals = [], []
    canon = {}
    for tid in acq:
        j = nxt[tid]
        nxt[tid] += 1
        k, outcome_k = calls_of[tid][j]
        events.append(["C", tid, k, outcome_k])
        r = res_of[tid][j]
        if r[0] == "S":
            if r[1] not in canon:
                canon[r[1]] = len(canon)
            t, e = objs[r[1]]
            reals.append("S%d:%d:%d:%d" % (canon[r[1]], t, e, r[2]))
        else:
            reals.append(r[0])
    hist = {"classes": [["single", c, t, e] for c, t, e in prog["classes"]], "nconn": len(prog["threads"]), "events": events}
    return hist_line(hist), ";".join(reals)


def strip_model_race(line):
    """model output of a history -> comparable with race_model_line's real side (drop creatorCalled and the state dump)"""
    res = line.split(" | ")[0].split(";")
    out = []
    for r in res:
        if r.startswith("S"):
            out.append(":".join(r.split(":")[:4]))
        elif r.startswith("RS"):
            out.append("RS")
        else:
            out.append(r)
    return ";".join(out)
