"""
C03 translator: python `ast` of  Proxy._pyroInvoke  and  _RemoteMethod.__call__  ->  Lean source text (shallow embedding over the
operations of lean/PyroModel/CallOps.lean).  Written to lean/PyroModel/Gen/C03Src.lean on every run.

SOUND BY REFUSAL: every statement kind, call target, attribute, operator that is not explicitly understood raises
`Untranslatable`.  Only docstrings, `log.*(...)` / `protocol.log_wiredata(...)` calls, annotations and comments are dropped.

The translation is a symbolic walk in continuation-passing style:
  * model-level values (flags, sequence numbers, loop counter, retry limit) are pure Lean expressions kept in an environment,
    so renaming a local, introducing a temporary (`expected = self._pyroSeq`) or re-using a name does not change the output;
  * payload-level values (serializer, data, annotations, method name, arguments ...) are opaque: an environment entry holds the
    canonical text of the defining expression (locals substituted by their definitions, the reply message = REPLY, parameters =
    P<i>).  Statements that only bind / mutate payload values are payload-level and have no counterpart in the whole-message model;
    an `if` on a payload condition is kept only if it is one of the NAMED conditions below, or if both branches translate to the
    same text;
  * private helpers of the same class (`self.__x(...)`) are inlined at the call site (their `return` = value of the call);
  * module-level constants are resolved through the real module to their values;
  * `if c: A; return` / `if c: A else: B` / `if not c: continue; raise` are all put into the one form `if c then A' else B'`
    where a branch that cannot fall through does not get the rest of the block;
  * exception classes are resolved through the real module and mapped to the model's `Err` (nearest base class among
    ConnectionClosedError, TimeoutError, ProtocolError, KeyboardInterrupt); an `except` clause becomes a Boolean table over `Err`
    computed with `issubclass` on the real classes.
"""
import ast
import inspect
import textwrap

import common


class Untranslatable(Exception):
    pass


def no(node, why):
    line = getattr(node, "lineno", "?")
    try:
        txt = ast.unparse(node)[:120]
    except Exception:
        txt = repr(node)
    raise Untranslatable("%s (line %s: %s)" % (why, line, txt))


ERR_ORDER = ["connClosed", "timeout", "protocol", "interrupt"]


class Tr:
    def __init__(self, module, cls, fn, kind):
        """kind: 'invoke' | 'remote'"""
        common.repo_on_path()
        from Pyro5 import errors, protocol
        self.errors = errors
        self.protocol = protocol
        self.module = module
        self.cls = cls
        self.kind = kind
        self.err_classes = {"connClosed": errors.ConnectionClosedError, "timeout": errors.TimeoutError,
                            "protocol": errors.ProtocolError, "interrupt": KeyboardInterrupt}
        self.fresh = 0
        self.depth = 0
        src = textwrap.dedent(inspect.getsource(fn))
        self.fdef = ast.parse(src).body[0]
        if not isinstance(self.fdef, ast.FunctionDef):
            no(self.fdef, "not a plain function")

    # ------------------------------------------------------------------ names
    def new(self, base):
        self.fresh += 1
        return "%s%d" % (base, self.fresh)

    def mangle(self, attr):
        if attr.startswith("__") and not attr.endswith("__"):
            return "_%s%s" % (self.cls.__name__.lstrip("_"), attr)
        return attr

    def resolve_global(self, node):
        """a dotted name rooted at a module-level name -> the live object (or raise KeyError)"""
        parts = []
        n = node
        while isinstance(n, ast.Attribute):
            parts.append(n.attr)
            n = n.value
        if not isinstance(n, ast.Name):
            raise KeyError
        obj = vars(self.module).get(n.id, getattr(__import__("builtins"), n.id, KeyError))
        if obj is KeyError:
            raise KeyError
        for a in reversed(parts):
            if not hasattr(obj, a):
                raise KeyError
            obj = getattr(obj, a)
        return obj

    def is_self_attr(self, node, env, name=None):
        return (isinstance(node, ast.Attribute) and isinstance(node.value, ast.Name) and env.get(node.value.id) == ("self",)
                and (name is None or self.mangle(node.attr) == name))

    # ------------------------------------------------------------------ model-level expressions (Nat / Bool)
    def mexpr(self, node, env, pre):
        """-> Lean text of a Nat expression; `pre` collects (var, op) reads of proxy fields.  Raises NotModel."""
        if isinstance(node, ast.Constant) and isinstance(node.value, int) and not isinstance(node.value, bool) and node.value >= 0:
            return str(node.value)
        if isinstance(node, ast.Name) and node.id in env:
            v = env[node.id]
            if v[0] == "model":
                return v[1]
            raise NotModel
        if isinstance(node, (ast.Name, ast.Attribute)):
            if self.is_self_attr(node, env, "_pyroSeq") and self.kind == "invoke":
                v = self.new("r")
                pre.append((v, "readSeq"))
                return v
            if self.is_self_attr(node, env, "_RemoteMethod__max_retries") and self.kind == "remote":
                return "maxRetries"
            if isinstance(node, ast.Attribute) and isinstance(node.value, ast.Name):
                base = env.get(node.value.id)
                if base is not None and base[0] == "reply" and node.attr == "seq":
                    return "%s.seq" % base[1]
                if base is not None and base[0] == "request" and node.attr == "seq":
                    return "%s.seq" % base[1]
                if base is not None and base[0] == "request" and node.attr == "flags":
                    return "%s.flags" % base[1]
            try:
                obj = self.resolve_global(node)
            except KeyError:
                raise NotModel
            if isinstance(obj, int) and not isinstance(obj, bool) and obj >= 0:
                return str(obj)
            raise NotModel
        if isinstance(node, ast.BinOp):
            ops = {ast.Add: "+", ast.BitAnd: "&&&", ast.BitOr: "|||"}
            if type(node.op) not in ops:
                raise NotModel
            return "(%s %s %s)" % (self.mexpr(node.left, env, pre), ops[type(node.op)], self.mexpr(node.right, env, pre))
        raise NotModel

    def mcond(self, node, env, pre):
        """-> Lean text of a Bool expression over model-level values.  Raises NotModel."""
        if isinstance(node, ast.Name) and env.get(node.id, (None,))[0] == "bool":
            return env[node.id][1]                       # a named boolean: substituted by its value
        if isinstance(node, ast.UnaryOp) and isinstance(node.op, ast.Not):
            inner = self.mcond(node.operand, env, pre)
            return inner[2:-1] if inner.startswith("(!") else "(!%s)" % inner
        if isinstance(node, ast.BoolOp):
            op = "&&" if isinstance(node.op, ast.And) else "||"
            return "(" + (" %s " % op).join(self.mcond(v, env, pre) for v in node.values) + ")"
        if isinstance(node, ast.Compare) and len(node.ops) == 1:
            op, l, r = node.ops[0], node.left, node.comparators[0]
            if isinstance(op, (ast.Is, ast.IsNot)) and isinstance(r, ast.Constant) and r.value is None \
                    and self.is_self_attr(l, env, "_pyroConnection") and self.kind == "invoke":
                v = self.new("c")
                pre.append((v, "readConnIsNone"))
                return v if isinstance(op, ast.Is) else "(!%s)" % v
            if isinstance(op, (ast.In, ast.NotIn)) and self.is_self_attr(r, env, "_pyroOneway") and isinstance(l, ast.Name) \
                    and env.get(l.id) == ("opaque", "P1") and self.kind == "invoke":
                return "inOnewaySet k" if isinstance(op, ast.In) else "(!inOnewaySet k)"
            ops = {ast.Eq: "==", ast.NotEq: "!=", ast.Lt: "<", ast.LtE: "≤", ast.Gt: ">", ast.GtE: "≥"}
            if type(op) in ops:
                a, b = self.mexpr(l, env, pre), self.mexpr(r, env, pre)
                if type(op) in (ast.Eq, ast.NotEq):
                    return "(%s %s %s)" % (a, ops[type(op)], b)
                # one normal form for the order comparisons on integers:  a < b  =  not (a >= b),  a > b  =  not (a <= b)
                if isinstance(op, ast.Lt):
                    return "(!(decide (%s ≥ %s)))" % (a, b)
                if isinstance(op, ast.Gt):
                    return "(!(decide (%s ≤ %s)))" % (a, b)
                return "(decide (%s %s %s))" % (a, ops[type(op)], b)
            raise NotModel
        # an integer used as a truth value: `flags & FLAGS_ONEWAY`
        return "(%s != 0)" % self.mexpr(node, env, pre)

    # ------------------------------------------------------------------ payload-level (opaque) expressions
    PURE_BUILTINS = {"bytes", "len", "isinstance", "str", "int", "bool", "list", "dict", "tuple", "repr"}

    def otext(self, node, env):
        """canonical text of a payload-level expression; refuses anything that could have an effect on the proxy"""
        if isinstance(node, ast.Constant):
            return repr(node.value)
        if isinstance(node, ast.Name):
            if node.id in env:
                v = env[node.id]
                if v[0] == "opaque":
                    return v[1]
                if v[0] in ("model", "bool"):
                    return "<%s>" % v[1]
                if v[0] == "reply":
                    return "REPLY"
                if v[0] == "request":
                    return "REQUEST"
                if v[0] == "self":
                    return "self"
                no(node, "use of this local in a payload expression")
            try:
                obj = self.resolve_global(node)
            except KeyError:
                no(node, "unknown name")
            return "<global %s>" % getattr(obj, "__name__", node.id)
        if isinstance(node, ast.Attribute):
            try:
                obj = self.resolve_global(node)
                if isinstance(obj, int) and not (isinstance(node.value, ast.Name) and node.value.id in env):
                    return repr(obj)                         # module-level constant: its value
            except KeyError:
                pass
            if self.is_self_attr(node, env):
                a = self.mangle(node.attr)
                if a in ("_pyroSerializer", "_pyroRawWireResponse", "_pyroOneway", "_pyroSeq", "_pyroConnection",
                         "_RemoteMethod__name", "_RemoteMethod__max_retries"):
                    return "self." + a
                no(node, "attribute of self not understood")
            return "%s.%s" % (self.otext(node.value, env), node.attr)
        if isinstance(node, ast.Subscript):
            return "%s[%s]" % (self.otext(node.value, env), self.otext(node.slice, env))
        if isinstance(node, (ast.Tuple, ast.List)):
            return "(" + ", ".join(self.otext(e, env) for e in node.elts) + ")"
        if isinstance(node, ast.Dict):
            return "{" + ", ".join("%s: %s" % (self.otext(k, env), self.otext(v, env)) for k, v in zip(node.keys, node.values)) + "}"
        if isinstance(node, ast.BoolOp):
            return "(" + (" and " if isinstance(node.op, ast.And) else " or ").join(self.otext(v, env) for v in node.values) + ")"
        if isinstance(node, ast.UnaryOp) and isinstance(node.op, ast.Not):
            return "(not %s)" % self.otext(node.operand, env)
        if isinstance(node, ast.BinOp) and isinstance(node.op, (ast.Mod, ast.Add, ast.BitAnd, ast.BitOr)):
            return "(%s %s %s)" % (self.otext(node.left, env), type(node.op).__name__, self.otext(node.right, env))
        if isinstance(node, ast.Compare) and len(node.ops) == 1:
            op = node.ops[0]
            nm = {ast.NotIn: "NotIn", ast.In: "In"}.get(type(op), type(op).__name__)
            return "(%s %s %s)" % (self.otext(node.left, env), nm, self.otext(node.comparators[0], env))
        if isinstance(node, ast.Call):
            if node.keywords and any(k.arg is None for k in node.keywords):
                no(node, "**kwargs in a call")
            args = [self.otext(a, env) for a in node.args] + ["%s=%s" % (k.arg, self.otext(k.value, env)) for k in node.keywords]
            f = node.func
            if isinstance(f, ast.Name) and f.id not in env:
                if f.id in self.PURE_BUILTINS and f.id not in vars(self.module):
                    return "%s(%s)" % (f.id, ", ".join(args))
                try:
                    obj = self.resolve_global(f)
                except KeyError:
                    no(node, "unknown call target")
                if obj is getattr(self.module, "_StreamResultIterator", None):
                    return "_StreamResultIterator(%s)" % ", ".join(args)
                no(node, "call target not understood")
            if isinstance(f, ast.Attribute):
                # a method of a payload object (serializer.loads, annotations.get, bytes.decode ...): allowed only when the
                # receiver is payload-level and is neither the proxy nor its connection
                try:
                    self.resolve_global(f)
                    is_global = not (isinstance(f.value, ast.Name) and f.value.id in env)
                except KeyError:
                    is_global = False
                recv = self.otext(f.value, env)
                if is_global or recv == "self" or recv.startswith("self._pyroConnection"):
                    no(node, "call target not understood")
                return "%s.%s(%s)" % (recv, f.attr, ", ".join(args))
            no(node, "call target not understood")
        no(node, "expression kind not understood")

    # named payload conditions (canonical text -> operation of CallOps)
    def named_cond(self, text, env):
        reply = next((v[1] for v in env.values() if v[0] == "reply"), None)
        ser = "<global Pyro5.serializers>.serializers[(self._pyroSerializer or <global config>.SERIALIZER)].serializer_id"
        table = {
            "(P2 and isinstance(P2[0], <global SerializedBlob>))": "blob",
            "((len(P2) Gt 1) or P3)": "blobBadArgs",
            "self._pyroRawWireResponse": "raw",
        }
        if reply is not None:
            table["(REPLY.serializer_id NotEq %s)" % ser] = "serializerMismatch %s" % reply
            table["(not bytes(REPLY.annotations.get('STRM', b'')).decode())"] = "streamRefused %s" % reply
            table["(REPLY.flags BitAnd %d)" % self.protocol.FLAGS_ITEMSTREAMRESULT] = "isStreamReply %s" % reply
        return table.get(text)

    # ------------------------------------------------------------------ exceptions
    def err_of_class(self, cls, node):
        if not (isinstance(cls, type) and issubclass(cls, BaseException)):
            no(node, "not an exception class")
        for c in cls.__mro__:
            for name, k in self.err_classes.items():
                if c is k:
                    return name
        no(node, "exception class outside the model")

    def handler_table(self, typ, node):
        classes = []
        elts = typ.elts if isinstance(typ, ast.Tuple) else [typ]
        for e in elts:
            try:
                c = self.resolve_global(e)
            except KeyError:
                no(e, "unknown exception class")
            if not (isinstance(c, type) and issubclass(c, BaseException)):
                no(e, "not an exception class")
            classes.append(c)
        row = {n: any(issubclass(k, c) for c in classes) for n, k in self.err_classes.items()}
        # mapping a subclass (SerializeError) to its base (protocol) must not change what this clause catches
        for nm in ("SerializeError", "MessageTooLargeError"):
            sub = getattr(self.errors, nm, None)
            if sub is not None and any(issubclass(sub, c) for c in classes) != row[self.err_of_class(sub, node)]:
                no(node, "except clause separates %s from its base class" % nm)
        return row

    # ------------------------------------------------------------------ statements (CPS)
    def emit_pre(self, pre, body):
        for v, op in reversed(pre):
            body = "bind %s fun %s =>\n%s" % (op, v, body)
        return body

    def falls_through(self, stmts):
        """can control reach the end of this block?"""
        for s in stmts:
            if isinstance(s, (ast.Return, ast.Raise, ast.Continue)):
                return False
            if isinstance(s, ast.If) and not self.falls_through(s.body) and s.orelse and not self.falls_through(s.orelse):
                return False
            if isinstance(s, ast.Try) and not self.falls_through(s.body) and all(not self.falls_through(h.body) for h in s.handlers):
                return False
        return True

    def block(self, stmts, env, ctx, k):
        """Lean text (type M Unit) of `stmts` followed by continuation k(env) (k is None = end of function body)"""
        if not stmts:
            return k(env)
        s, rest = stmts[0], stmts[1:]
        cont = lambda e: self.block(rest, e, ctx, k)
        self.depth += 1
        if self.depth > 400:
            no(s, "nesting too deep")
        try:
            return self.stmt(s, rest, env, ctx, k, cont)
        finally:
            self.depth -= 1

    def stmt(self, s, rest, env, ctx, k, cont):
        if isinstance(s, (ast.Import, ast.Pass)):
            if isinstance(s, ast.Import):
                env = dict(env)
                for a in s.names:
                    env[a.asname or a.name] = ("opaque", "<module %s>" % a.name)
            return cont(env)
        if isinstance(s, ast.AnnAssign) and s.value is None:
            return cont(env)
        if isinstance(s, ast.Expr):
            v = s.value
            if isinstance(v, ast.Constant) and isinstance(v.value, str):
                return cont(env)                                   # docstring
            if isinstance(v, ast.Call):
                return self.call_stmt(v, env, ctx, cont)
            no(s, "expression statement not understood")
        if isinstance(s, ast.Delete):
            env = dict(env)
            for t in s.targets:
                if not (isinstance(t, ast.Name) and t.id in env):
                    no(s, "del of something that is not a local")
                del env[t.id]
            return cont(env)
        if isinstance(s, ast.Assign) and len(s.targets) == 1:
            return self.assign(s.targets[0], s.value, s, env, ctx, cont)
        if isinstance(s, ast.AugAssign):
            if not isinstance(s.target, ast.Name):
                no(s, "augmented assignment to a non-local")
            fake = ast.BinOp(left=ast.Name(id=s.target.id, ctx=ast.Load()), op=s.op, right=s.value)
            ast.copy_location(fake, s)
            ast.fix_missing_locations(fake)
            return self.assign(s.target, fake, s, env, ctx, cont)
        if isinstance(s, ast.If):
            return self.if_stmt(s, rest, env, ctx, k, cont)
        if isinstance(s, ast.Try):
            return self.try_stmt(s, rest, env, ctx, k, cont)
        if isinstance(s, ast.For):
            return self.for_stmt(s, env, ctx, cont)
        if isinstance(s, ast.Return):
            return ctx["ret"](s.value, env, s)
        if isinstance(s, ast.Continue):
            if not ctx.get("loop"):
                no(s, "continue outside a loop")
            return "pure' ()"
        if isinstance(s, ast.Raise):
            return self.raise_stmt(s, env, ctx)
        no(s, "statement kind not understood")

    # -- calls used as statements
    def is_logging(self, call, env):
        f = call.func
        if isinstance(f, ast.Attribute) and isinstance(f.value, ast.Name) and f.value.id == "log" and "log" not in env:
            return True
        try:
            obj = self.resolve_global(f)
        except KeyError:
            return False
        return obj is getattr(self.protocol, "log_wiredata", None)

    def helper(self, call, env):
        """`self.__x(...)` where __x is a private plain method of the class -> (FunctionDef, bound env) or None"""
        f = call.func
        if not (self.is_self_attr(f, env) and f.attr.startswith("__") and not f.attr.endswith("__")):
            return None
        name = self.mangle(f.attr)
        fn = vars(self.cls).get(name)
        if not inspect.isfunction(fn):
            no(call, "private helper not found")
        return name, fn

    def call_stmt(self, call, env, ctx, cont):
        if self.is_logging(call, env):
            return cont(env)
        f = call.func
        h = self.helper(call, env)
        if h is not None:
            name, fn = h
            if name == "_Proxy__check_owner" and not call.args and not call.keywords:
                return "bind checkOwner fun _ =>\n" + cont(env)
            if name == "_Proxy__pyroCreateConnection" and not call.args and not call.keywords:
                return "bind createConnection fun _ =>\n" + cont(env)
            return self.inline(fn, call, env, ctx, lambda vals, e: cont(e))
        if self.is_self_attr(f, env, "_pyroRelease") and not call.args and not call.keywords and self.kind == "invoke":
            return "bind release fun _ =>\n" + cont(env)
        # self._pyroConnection.send(<request>.data)
        if isinstance(f, ast.Attribute) and f.attr == "send" and self.is_self_attr(f.value, env, "_pyroConnection") \
                and len(call.args) == 1 and not call.keywords:
            a = call.args[0]
            if isinstance(a, ast.Attribute) and a.attr == "data" and isinstance(a.value, ast.Name) \
                    and env.get(a.value.id, (None,))[0] == "request":
                return "bind (connSend k tok %s) fun _ =>\n" % env[a.value.id][1] + cont(env)
            no(call, "send of something that is not the request message")
        no(call, "call statement not understood")

    def inline(self, fn, call, env, ctx, kvals):
        """inline a private helper: parameters bound to the argument values, `return e` = kvals([values], env)"""
        fdef = ast.parse(textwrap.dedent(inspect.getsource(fn))).body[0]
        a = fdef.args
        if a.vararg or a.kwarg or a.kwonlyargs or a.posonlyargs or call.keywords or len(call.args) != len(a.args) - 1:
            no(call, "helper call shape not understood")
        henv = {a.args[0].arg: ("self",)}
        for p, arg in zip(a.args[1:], call.args):
            henv[p.arg] = self.value_of(arg, env, call)
        outer = env

        def ret(value, e, node):
            vals = []
            if value is not None and not (isinstance(value, ast.Constant) and value.value is None):
                elts = value.elts if isinstance(value, ast.Tuple) else [value]
                pre = []
                vals = [self.value_of(x, e, node, pre) for x in elts]
                return self.emit_pre(pre, kvals(vals, outer))
            return kvals(vals, outer)
        hctx = {"ret": ret, "loop": False, "handler": None}
        return self.block(fdef.body, henv, hctx, lambda e: kvals([], outer))

    def value_of(self, node, env, where, pre=None):
        """environment entry for the value of an expression (model-level if possible, else payload-level)"""
        if isinstance(node, ast.Name) and node.id in env and env[node.id][0] in ("reply", "request", "self"):
            return env[node.id]
        p = [] if pre is None else pre
        n0 = len(p)
        try:
            return ("model", self.mexpr(node, env, p))
        except NotModel:
            del p[n0:]
        if isinstance(node, (ast.Compare, ast.BoolOp)) or (isinstance(node, ast.UnaryOp) and isinstance(node.op, ast.Not)):
            try:
                return ("bool", self.mcond(node, env, p))
            except NotModel:
                del p[n0:]
        if pre is None and p:
            no(where, "read of a proxy field in an argument")
        return ("opaque", self.otext(node, env))

    # -- assignment
    def assign(self, target, value, s, env, ctx, cont):
        # self._pyroSeq = <model expr>
        if self.is_self_attr(target, env, "_pyroSeq") and self.kind == "invoke":
            pre = []
            try:
                e = self.mexpr(value, env, pre)
            except NotModel:
                no(s, "sequence number assigned something not understood")
            return self.emit_pre(pre, "bind (writeSeq %s) fun _ =>\n" % e + cont(env))
        if isinstance(target, ast.Attribute):
            # current_context.response_annotations = <payload>  (context annotations: not part of the model)
            try:
                obj = self.resolve_global(target.value)
            except KeyError:
                obj = None
            if obj is not None and obj is getattr(self.module, "current_context", None) and target.attr == "response_annotations":
                self.otext(value, env)
                return cont(env)
            no(s, "assignment to an attribute not understood")
        if isinstance(target, ast.Subscript):
            # payload mutation: annotations["BLBI"] = ...
            if isinstance(target.value, ast.Name) and env.get(target.value.id, (None,))[0] == "opaque":
                self.otext(target.slice, env)
                self.otext(value, env)
                return cont(env)
            no(s, "item assignment not understood")
        if isinstance(target, ast.Tuple):
            if not all(isinstance(t, ast.Name) for t in target.elts):
                no(s, "tuple target not understood")
            if isinstance(value, ast.Call) and self.helper(value, env) is not None:
                _, fn = self.helper(value, env)

                def kv(vals, e):
                    if len(vals) != len(target.elts):
                        no(s, "helper returns a different number of values")
                    e = dict(e)
                    for t, v in zip(target.elts, vals):
                        e[t.id] = v
                    return cont(e)
                return self.inline(fn, value, env, ctx, kv)
            no(s, "tuple assignment not understood")
        if not isinstance(target, ast.Name):
            no(s, "assignment target not understood")
        name = target.id
        if isinstance(value, ast.Call):
            f = value.func
            try:
                obj = self.resolve_global(f)
            except KeyError:
                obj = None
            if obj is not None and obj is getattr(self.protocol, "SendingMessage", None) and self.kind == "invoke":
                if len(value.args) < 5 or any(kw.arg not in ("annotations",) for kw in value.keywords):
                    no(s, "SendingMessage call shape not understood")
                pre = []
                try:
                    a = [self.mexpr(x, env, pre) for x in value.args[:3]]
                except NotModel:
                    no(s, "message type / flags / seq of the request not understood")
                for x in value.args[3:]:
                    self.otext(x, env)
                for kw in value.keywords:
                    self.otext(kw.value, env)
                v = self.new("rq")
                e2 = dict(env)
                e2[name] = ("request", v)
                return self.emit_pre(pre, "let %s := mkRequest %s %s %s;\n" % (v, a[0], a[1], a[2]) + cont(e2))
            if obj is not None and obj is getattr(self.protocol, "recv_stub", None) and self.kind == "invoke":
                if len(value.args) != 2 or value.keywords or not self.is_self_attr(value.args[0], env, "_pyroConnection") \
                        or not isinstance(value.args[1], (ast.List, ast.Tuple)):
                    no(s, "recv_stub call shape not understood")
                pre = []
                try:
                    types = [self.mexpr(x, env, pre) for x in value.args[1].elts]
                except NotModel:
                    no(s, "accepted message types not understood")
                if pre:
                    no(s, "accepted message types not constant")
                v = self.new("m")
                e2 = dict(env)
                e2[name] = ("reply", v)
                return "bind (recvStub [%s]) fun %s =>\n" % (", ".join(types), v) + cont(e2)
            h = self.helper(value, env)
            if h is not None:
                def kv(vals, e):
                    if len(vals) != 1:
                        no(s, "helper does not return one value")
                    e = dict(e)
                    e[name] = vals[0]
                    return cont(e)
                return self.inline(h[1], value, env, ctx, kv)
        pre = []
        val = self.value_of(value, env, s, pre)
        e2 = dict(env)
        if val[0] == "model" and (pre or len(val[1]) > 24):
            v = self.new("x")
            e2[name] = ("model", v)
            return self.emit_pre(pre, "let %s := %s;\n" % (v, val[1]) + cont(e2))
        e2[name] = val
        return cont(e2)

    # -- if
    def pure_block(self, stmts, env):
        """a block that only binds locals / is dropped: -> new env, or None"""
        marker = "<<END>>"
        got = []

        def kk(e):
            got.append(e)
            return marker
        ctx = {"ret": lambda *a: (_ for _ in ()).throw(NotPure()), "loop": False, "handler": None, "pure": True}
        try:
            txt = self.block(stmts, env, ctx, kk)
        except NotPure:
            return None
        if txt != marker or len(got) != 1:
            return None
        return got[0]

    def if_stmt(self, s, rest, env, ctx, k, cont):
        pre = []
        try:
            c = self.mcond(s.test, env, pre)
            named = True
        except NotModel:
            del pre[:]
            text = self.otext(s.test, env)
            c = self.named_cond(text, env)
            named = c is not None
            if not named:
                ctext = text
                self.__dict__.setdefault("unnamed", []).append(text)
        body_ft, else_ft = self.falls_through(s.body), self.falls_through(s.orelse)
        # (1) both branches only bind locals: merge the environments
        if body_ft and else_ft:
            ea, eb = None, None
            try:
                ea, eb = self.pure_block(s.body, env), self.pure_block(s.orelse, env)
            except Untranslatable:
                ea = eb = None
            if ea is not None and eb is not None:
                e2 = dict(env)
                lets = ""
                for n in sorted(set(ea) | set(eb)):
                    va, vb = ea.get(n), eb.get(n)
                    if va == vb:
                        if va is not None:
                            e2[n] = va
                        continue
                    if va is None or vb is None:
                        e2.pop(n, None)          # bound on one path only: unusable afterwards
                        continue
                    if va[0] == "model" and vb[0] == "model":
                        if not named:
                            no(s, "model-level value depends on a payload condition that has no name")
                        v = self.new("x")
                        lets += "let %s := if %s then %s else %s;\n" % (v, c, va[1], vb[1])
                        e2[n] = ("model", v)
                    elif va[0] == "opaque" and vb[0] == "opaque":
                        e2[n] = ("opaque", "ite(%s, %s, %s)" % (c if named else ctext, va[1], vb[1]))
                    else:
                        no(s, "a local is model-level on one path and payload-level on the other")
                return self.emit_pre(pre, lets + cont(e2))
        # (2) general form: a branch that cannot fall through does not get the rest
        ka = cont if body_ft else (lambda e: no(s, "internal: fall-through analysis"))
        kb = cont if else_ft else (lambda e: no(s, "internal: fall-through analysis"))
        if body_ft and else_ft and rest:
            # effectful branches without bindings: `bind (if c then A else B) fun _ => rest`
            try:
                a = self.block(s.body, env, ctx, lambda e: self.same_env(e, env, s))
                b = self.block(s.orelse, env, ctx, lambda e: self.same_env(e, env, s)) if s.orelse else "pure' ()"
                mergeable = True
            except BindsLocals:
                mergeable = False       # fall back to (3): the rest of the block is translated once per branch
            if mergeable:
                if not named:
                    if a != b:
                        no(s, "payload condition without a name guards different behaviour")
                    return "bind (%s) fun _ =>\n" % a + cont(env)
                return self.emit_pre(pre, "bind (if %s then (%s) else (%s)) fun _ =>\n" % (c, a, b) + cont(env))
        c0 = self.fresh
        a = self.block(s.body, env, ctx, ka)
        c1, self.fresh = self.fresh, c0           # same numbering in both branches (they are separate scopes)
        b = self.block(s.orelse, env, ctx, kb) if s.orelse else kb(env)
        self.fresh = max(self.fresh, c1)
        if not named:
            if a != b:
                no(s, "payload condition without a name guards different behaviour")
            return a
        if c.startswith("(!") and c.endswith(")"):
            c, a, b = c[2:-1], b, a                        # if not c: A else: B  =  if c: B else: A
        return self.emit_pre(pre, "if %s then (%s) else (%s)" % (c, a, b))

    def same_env(self, e, env, node):
        if e != env:
            raise BindsLocals()
        return "pure' ()"

    # -- try / except
    def try_stmt(self, s, rest, env, ctx, k, cont):
        if s.orelse or s.finalbody or len(s.handlers) != 1 or getattr(s, "type_comment", None):
            no(s, "try shape not understood")
        h = s.handlers[0]
        if h.type is None:
            no(s, "bare except")
        row = self.handler_table(h.type, s)
        ev = self.new("e")
        henv = dict(env)
        if h.name:
            henv[h.name] = ("exc", ev)
        hctx = dict(ctx)
        hctx["handler"] = ev
        body_ft = self.falls_through(s.body)
        h_ft = self.falls_through(h.body)
        kend = (lambda e: self.same_env_try(e, env, s))
        body = self.block(s.body, env, ctx, kend)
        hb = self.block(h.body, henv, hctx, kend)
        table = " | ".join(".%s => %s" % (n, "true" if row[n] else "false") for n in ERR_ORDER)
        t = "tryExcept (%s)\n(fun %s => if (match %s with | %s) then (%s) else raise %s)" % (body, ev, ev, table, hb, ev)
        if not body_ft and not h_ft:
            return t
        after = cont(env)
        if after == "pure' ()":
            return t                                       # right unit: nothing follows in this block
        return "bind (%s) fun _ =>\n" % t + after

    def same_env_try(self, e, env, node):
        # locals bound inside a try block are not used after it in the functions translated here
        return "pure' ()"

    # -- for
    def for_stmt(self, s, env, ctx, cont):
        if s.orelse or not isinstance(s.target, ast.Name):
            no(s, "for shape not understood")
        it = s.iter
        if not (isinstance(it, ast.Call) and isinstance(it.func, ast.Name) and it.func.id == "range" and "range" not in env
                and "range" not in vars(self.module) and len(it.args) == 1 and not it.keywords):
            no(s, "only `for v in range(e)` is understood")
        pre = []
        try:
            n = self.mexpr(it.args[0], env, pre)
        except NotModel:
            no(s, "range bound not understood")
        if pre:
            no(s, "range bound reads a proxy field")
        v = self.new("i")
        benv = dict(env)
        benv[s.target.id] = ("model", v)
        bctx = dict(ctx)
        bctx["loop"] = True
        body = self.block(s.body, benv, bctx, lambda e: "pure' ()")
        return "bind (forRange %s fun %s =>\n%s) fun _ =>\n" % (n, v, body) + cont(env)

    # -- raise
    def raise_stmt(self, s, env, ctx):
        if s.cause is not None:
            no(s, "raise ... from")
        if s.exc is None:
            if not ctx.get("handler"):
                no(s, "bare raise outside a handler")
            return "raise %s" % ctx["handler"]
        x = s.exc
        if isinstance(x, ast.Name) and x.id in env:
            v = env[x.id]
            if v[0] == "opaque" and "REPLY" in v[1]:
                # `raise data`: the remote exception carried by the reply = the call's own outcome
                reply = next(w[1] for w in env.values() if w[0] == "reply")
                return "ret (delivered %s)" % reply
            if v[0] == "opaque" and v[1].startswith("<exc "):
                return "raise .%s" % v[1][5:-1]
            no(s, "raise of a local not understood")
        if isinstance(x, ast.Call):
            try:
                cls = self.resolve_global(x.func)
            except KeyError:
                no(s, "unknown exception class")
            for a in x.args:
                self.otext(a, env)
            return "raise .%s" % self.err_of_class(cls, s)
        no(s, "raise not understood")

    # ------------------------------------------------------------------ entry points
    def translate(self):
        a = self.fdef.args
        env = {a.args[0].arg: ("self",)}
        if self.kind == "invoke":
            if a.vararg or a.kwarg or a.kwonlyargs or len(a.args) != 6:
                no(self.fdef, "signature of _pyroInvoke not understood")
            d = a.defaults
            if len(d) != 2 or not (isinstance(d[0], ast.Constant) and d[0].value == 0):
                no(self.fdef, "default of the flags parameter not understood")
            for i, p in enumerate(a.args[1:], 1):
                env[p.arg] = ("opaque", "P%d" % i)
            env[a.args[4].arg] = ("model", "p_flags")

            def ret(value, e, node):
                if value is None or (isinstance(value, ast.Constant) and value.value is None):
                    return "ret .none_"
                txt = self.otext(value, e)
                if "REPLY" in txt:
                    reply = next(w[1] for w in e.values() if w[0] == "reply")
                    return "ret (delivered %s)" % reply
                no(node, "returned value does not come from the reply")
            ctx = {"ret": ret, "loop": False, "handler": None}
            body = self.block(self.fdef.body, env, ctx, lambda e: "pure' ()")
            return ("def pyroInvokeSrc (blob raw : Bool) (k : Kind) (tok : Nat) : M Unit :=\n"
                    "let p_flags := flagsParam k;\n" + body)
        else:
            if not a.vararg or not a.kwarg or a.kwonlyargs or len(a.args) != 1:
                no(self.fdef, "signature of _RemoteMethod.__call__ not understood")
            env[a.vararg.arg] = ("opaque", "ARGS")
            env[a.kwarg.arg] = ("opaque", "KWARGS")

            def ret(value, e, node):
                # return self.__send(self.__name, args, kwargs)
                if isinstance(value, ast.Call) and self.is_self_attr(value.func, e, "_RemoteMethod__send") and not value.keywords \
                        and [self.otext(x, e) for x in value.args] == ["self._RemoteMethod__name", "ARGS", "KWARGS"]:
                    o = self.new("o")
                    return "bind send fun %s =>\nret %s" % (o, o)
                no(node, "returned value not understood")
            ctx = {"ret": ret, "loop": False, "handler": None}
            body = self.block(self.fdef.body, env, ctx, lambda e: "pure' ()")
            return "def remoteCallSrc (send : M Outcome) (maxRetries : Nat) : M Unit :=\n" + body


class NotModel(Exception):
    pass


class NotPure(Exception):
    pass


class BindsLocals(Exception):
    pass


def indent(text):
    """indentation by parenthesis depth (the text is fully parenthesised, so layout does not matter to Lean)"""
    out, depth = [], 0
    for line in text.split("\n"):
        out.append("  " * (1 + max(depth, 0)) + line if not line.startswith("def ") else line)
        depth += line.count("(") - line.count(")")
    return "\n".join(out)


def translate_all():
    common.repo_on_path()
    from Pyro5 import client, protocol
    inv = Tr(client, client.Proxy, client.Proxy._pyroInvoke, "invoke").translate()
    rem = Tr(client, client._RemoteMethod, client._RemoteMethod.__call__, "remote").translate()
    consts = {n: getattr(protocol, n) for n in ("MSG_CONNECTOK", "MSG_INVOKE", "MSG_RESULT", "FLAGS_ONEWAY", "FLAGS_BATCH")}
    for n, v in consts.items():
        if not isinstance(v, int):
            raise Untranslatable("protocol.%s is not an integer" % n)
    return f"""-- GENERATED by harness/props/c03_tr.py from the SOURCE of Pyro5/client.py of the current tree — do not edit
-- shallow embedding (operations: PyroModel/CallOps.lean) of Proxy._pyroInvoke (with its private helpers inlined) and
-- _RemoteMethod.__call__; theorems about it: PyroProps/C03Src.lean
import PyroModel.CallOps
namespace Pyro.Gen.C03Src
open Pyro.Call Pyro.CallOps

/-- protocol.py: (MSG_CONNECTOK, MSG_INVOKE, MSG_RESULT, FLAGS_ONEWAY, FLAGS_BATCH) -/
def protoConsts : List Nat := [{", ".join(str(consts[n]) for n in ("MSG_CONNECTOK", "MSG_INVOKE", "MSG_RESULT", "FLAGS_ONEWAY", "FLAGS_BATCH"))}]

/-- Proxy._pyroInvoke -/
{indent(inv)}

/-- _RemoteMethod.__call__ -/
{indent(rem)}

/-- one `_pyroInvoke` as transcribed from the source, run on the model's world and script -/
def invokeSrc (blob raw : Bool) (k : Kind) (tok : Nat) (W : World) (s : List Ev) : Outcome × World × List Ev :=
  run (pyroInvokeSrc blob raw k tok) (start W s)

/-- a user-level call whose every `_pyroInvoke` is the transcription of the source -/
def callSrc (blob raw : Bool) (retries : Nat) (k : Kind) (tok : Nat) (W : World) (s : List Ev) : Outcome × World × List Ev :=
  callG (invokeSrc blob raw) retries k tok W s

end Pyro.Gen.C03Src
"""


if __name__ == "__main__":
    print(translate_all())
