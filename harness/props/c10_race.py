"""C10, quantifier "schedules": concurrent daemon-object / disconnect / housekeeping calls with REAL threads on the real
Daemon under the deterministic scheduler (harness/sched.py).  Yield points: every access of `Daemon.streaming_responses`
(an instrumented dict subclass installed from outside) and every `next()` of a stream's iterator."""
import ast
import json
import os

import common
import sched as S


# ---- program sets ------------------------------------------------------------------------------------------
# cfg: (lifetime, linger); now; table: [(stream, owner conn | None, created, linger start)]; heap: items per stream;
# progs: one list of calls per thread.  A thread is one connection (its next calls and its own disconnect), a oneway
# close_stream thread, or the housekeeper.   calls: ("N", stream, conn) ("C", stream) ("D", conn) ("H",)
def _ps(lifetime, linger, now, table, heap, progs):
    return {"lifetime": lifetime, "linger": linger, "now": now, "table": table, "heap": heap, "progs": progs}


V = lambda *xs: [("v", x) for x in xs]   # noqa: E731

PROGRAM_SETS = [
    # exhaustion / failure of the iterator racing with lifetime expiry (F10)
    _ps(5, 0, 10, [(0, 0, 0, 0)], [[]], [[("N", 0, 0)], [("H",)]]),
    _ps(5, 0, 10, [(0, 0, 0, 0)], [[("r", 3)]], [[("N", 0, 0)], [("H",)]]),
    _ps(5, 0, 10, [(0, 0, 0, 0)], [V(1)], [[("N", 0, 0), ("N", 0, 0)], [("H",)]]),
    # reconnect to a lingering stream racing with linger expiry
    _ps(0, 4, 10, [(0, None, 0, 3)], [V(1, 2)], [[("N", 0, 1), ("N", 0, 1)], [("H",)]]),
    _ps(0, 4, 10, [(0, None, 0, 3)], [[]], [[("N", 0, 1)], [("H",)]]),
    # oneway close_stream racing with the connection's disconnect (no linger: streams are dropped)
    _ps(0, 0, 10, [(0, 0, 0, 0), (1, 0, 0, 0)], [V(1), V(2)], [[("D", 0)], [("C", 0)]]),
    _ps(0, 4, 10, [(0, 0, 0, 0), (1, 0, 0, 0)], [V(1), V(2)], [[("D", 0)], [("C", 0)]]),
    # close_stream racing with expiry; two expired streams
    _ps(5, 0, 10, [(0, 0, 0, 0), (1, 1, 0, 0)], [V(1), V(2)], [[("C", 0)], [("H",)]]),
    # exhaustion racing with close_stream from a oneway thread
    _ps(0, 30, 10, [(0, 0, 0, 0)], [[]], [[("N", 0, 0)], [("C", 0)]]),
    # two connections, each on its own stream, and the housekeeper (lifetime and linger passes)
    _ps(5, 4, 10, [(0, 0, 0, 0), (1, 1, 8, 0)], [V(1), []], [[("N", 0, 0)], [("N", 1, 1), ("D", 1)], [("H",)]]),
    # disconnect racing with expiry
    _ps(5, 0, 10, [(0, 0, 0, 0), (1, 0, 0, 0)], [V(1), V(2)], [[("D", 0)], [("H",)]]),
    # a foreign connection reads a stream whose owner disconnects
    _ps(0, 0, 10, [(0, 0, 0, 0)], [[]], [[("N", 0, 1)], [("D", 0)]]),
    _ps(0, 6, 10, [(0, 0, 0, 0)], [V(7)], [[("N", 0, 1), ("N", 0, 1)], [("D", 0)]]),
]


def gen_program_set(rng):
    lifetime = rng.choice([0, 5, 5])
    linger = rng.choice([0, 4, 4])
    now = 10
    nstreams = rng.choice([1, 2, 2])
    nconn = rng.choice([1, 2])
    table, heap = [], []
    for k in range(nstreams):
        owner = rng.randrange(nconn)
        created = rng.choice([0, 8])
        lg = 0
        if linger > 0 and rng.random() < 0.3:
            owner, lg = None, rng.choice([3, 8])
        table.append((k, owner, created, lg))
        n = rng.choice([0, 0, 1, 2])
        items = V(*[rng.randint(1, 9) for _ in range(n)])
        if rng.random() < 0.25:
            items.append(("r", rng.randint(1, 9)))
        heap.append(items)
    progs = []
    budget = rng.choice([2, 3, 3, 4])
    for c in range(nconn):
        p = []
        for _ in range(rng.choice([1, 1, 2])):
            if budget > 0:
                p.append(("N", rng.randrange(nstreams), c))
                budget -= 1
        if rng.random() < 0.4:
            p.append(("D", c))
        if p:
            progs.append(p)
    if rng.random() < 0.4:
        progs.append([("C", rng.randrange(nstreams))])
    if rng.random() < 0.75 or len(progs) < 2:
        progs.append([("H",)])
    if len(progs) < 2:
        progs.append([("C", 0)])
    return _ps(lifetime, linger, now, table, heap, progs)


def items_tok(items):
    return ",".join("%s%d" % (k, v) for k, v in items) or "-"


def race_line(ps, modes):
    tab = ";".join("%d:%s:%d:%d" % (k, "n" if o is None else o, c, lg) for k, o, c, lg in ps["table"]) or "-"
    heap = "/".join(items_tok(i) for i in ps["heap"]) or "-"
    progs = ["+".join(".".join(str(x) for x in c) for c in p) for p in ps["progs"]]
    return " ".join(["race", modes, str(ps["lifetime"]), str(ps["linger"]), str(ps["now"]), tab, heap] + progs)


def extracted_modes():
    """'s'/'t' per function (next, close, disconnect, housekeeping): probed behaviour (does the removal tolerate a vanished key)"""
    from props import c10_probe
    return c10_probe.modes()


def housekeeper_guarded():
    """does a failing housekeeping pass leave the Housekeeper thread alive?  probed on svr_threads.Housekeeper.run"""
    from props import c10_probe
    return c10_probe.housekeeper_guarded()


# ---- one controlled execution ---------------------------------------------------------------------------------
def make_idict(sc):
    def pt(name):
        real = getattr(dict, name)

        def f(self, *a, **k):
            sc.point(("tbl", name))
            return real(self, *a, **k)
        f.__name__ = name
        return f
    ns = {m: pt(m) for m in ("__contains__", "__getitem__", "__setitem__", "__delitem__", "get", "pop", "keys", "__iter__")}

    def __bool__(self):          # `if self.streaming_responses:` (list(d) only uses __len__, which stays un-instrumented)
        sc.point(("tbl", "__bool__"))
        return dict.__len__(self) > 0
    ns["__bool__"] = __bool__
    return type("IDict", (dict,), ns)


def run_once(world, ps, policy, hk_guarded):
    """returns (sched, outcome string, info)"""
    from props import c10 as base
    from Pyro5 import config
    from Pyro5.server import current_context
    config.ITER_STREAMING, config.ITER_STREAM_LIFETIME, config.ITER_STREAM_LINGER = True, ps["lifetime"], ps["linger"]
    sc = S.Sched(policy, max_steps=2000)
    world.reset(ps["now"])
    daemon = world.daemon
    uuids = ["stream-%d" % k for k in range(len(ps["heap"]))]
    reached = {}       # thread index -> True when next(stream) ran during the current call
    tidx = {}

    def hook_for(k):
        def hook():
            sc.point(("next", k))
            reached[tidx.get(sc.me())] = True
        return hook
    sources = [base.ScriptIter(list(items), hook_for(k)) for k, items in enumerate(ps["heap"])]
    table = make_idict(sc)()
    for k, owner, created, lg in ps["table"]:
        dict.__setitem__(table, uuids[k], (None if owner is None else world.conn(owner), created, lg, sources[k]))
    daemon.streaming_responses = table
    old_lock = daemon.housekeeper_lock
    daemon.housekeeper_lock = S.ILock(sc, "housekeeper_lock")
    results = [[] for _ in ps["progs"]]
    masked = []
    disconnected = set()
    hk_dead = [False]

    def mk(i, prog):
        def body():
            tidx[sc.me()] = i
            for call in prog:
                reached[i] = False
                try:
                    if call[0] == "N":
                        current_context.client = world.conn(call[2])
                        r = "item%d" % world.dobj.get_next_stream_item(uuids[call[1]])
                    elif call[0] == "C":
                        world.dobj.close_stream(uuids[call[1]])
                        r = "ok"
                    elif call[0] == "D":
                        disconnected.add(call[1])
                        daemon._clientDisconnect(world.conn(call[1]))     # svr_threads.py 59-63: exceptions are logged
                        r = "ok"
                    else:
                        daemon._housekeeping()
                        r = "ok"
                except Exception as x:
                    r = base.canon_exc(x)
                    if r == "EXC:KeyError":
                        r = "keyerr"
                        if call[0] == "N" and reached[i]:
                            r = "keyerr!"
                            masked.append((i, call, sources[call[1]].pos))
                    if call[0] == "H" and not hk_guarded:
                        results[i].append(r)
                        hk_dead[0] = True
                        return          # the Housekeeper thread's loop has no handler: the thread is gone
                results[i].append(r)
        return body
    try:
        for i, prog in enumerate(ps["progs"]):
            sc.spawn(mk(i, prog))
        status = sc.run()
        tab = ";".join("%d:%s:%d:%d" % (uuids.index(sid), "n" if c is None else c.idx, ts, lts)
                       for sid, (c, ts, lts, _) in dict.items(table)) or "-"
        heap = "/".join(items_tok(s.remaining()) for s in sources) or "-"
        outcome = "/".join(",".join(r) or "-" for r in results) + " # " + tab + " # " + heap
        # ---- epilogue (sequential, unmanaged): every remaining connection ends, both periods pass, and the housekeeper
        # (if its thread is still alive) makes one more pass: the server must have forgotten every stream
        leftover = None
        stage = None
        if status == "ok":
            remaining = lambda: sorted(uuids.index(sid) for sid in dict.keys(table))   # noqa: E731
            if ps["lifetime"] > 0:
                # connections stay open, the lifetime passes, the housekeeper (if alive) makes a pass
                world.clock.now += ps["lifetime"] + 1
                if not hk_dead[0]:
                    daemon._housekeeping()
                leftover = remaining()
                stage = "their lifetime has passed"
            if not leftover:
                for c in sorted(world.conns):
                    if c not in disconnected:
                        try:
                            daemon._clientDisconnect(world.conn(c))
                        except Exception:
                            pass
                world.clock.now += max(ps["linger"], 0) + 1
                if not hk_dead[0]:
                    daemon._housekeeping()
                leftover = remaining()
                stage = "every connection has ended and the linger period has passed"
        return sc, outcome, {"status": status, "masked": masked, "leftover": leftover, "hk_dead": hk_dead[0], "stage": stage}
    finally:
        daemon.housekeeper_lock = old_lock
        daemon.streaming_responses = {}
        for s in sources:
            s.hook = None


def judge(ps, sc, outcome, info):
    """the property on one real execution, independent of the model; returns (signature, description) or None"""
    if info["status"] != "ok":
        return ("race:" + info["status"], "schedule ends in %s" % info["status"])
    if info["masked"]:
        i, call, pos = info["masked"][0]
        items = ps["heap"][call[1]]
        what = "StopIteration" if pos >= len(items) and (not items or items[-1][0] == "v") else "the iterator's exception"
        return ("race:reply-masked", "get_next_stream_item on stream %d: next(stream) raised %s but the client gets KeyError "
                "(the stream was removed concurrently and `del` fails in the handler)" % (call[1], what))
    if info["leftover"]:
        why = "the housekeeper thread died of a KeyError" if info["hk_dead"] else "a disconnect was aborted by a KeyError"
        return ("race:not-forgotten", "streams %s stay in the server's table for ever although %s (%s)"
                % (info["leftover"], info["stage"], why))
    return None


def explore_set(ctx, world, ps, modes, hk_guarded, bound, max_runs, rng, nrandom, lines, reals, meta, origin=None):
    outcomes = set()
    first_bad = [None]
    runs = [0]

    def once(policy):
        sc, outcome, info = run_once(world, ps, policy, hk_guarded)
        return sc, (outcome, info)

    def see(sc, outcome, info):
        runs[0] += 1
        ctx.evaluations += 1
        outcomes.add(outcome)
        switches = sum(1 for a, b in zip(sc.trace, sc.trace[1:]) if a[0] != b[0])
        if switches >= 2:
            ctx.nontriv((race_line(ps, "-"), tuple(t for t, _ in sc.trace)))
        for r in outcome.split(" # ")[0].replace("/", ",").split(","):
            ctx.count("race-reply:" + r.rstrip("0123456789"))
        bad = judge(ps, sc, outcome, info)
        if bad and first_bad[0] is None:
            first_bad[0] = bad
            ctx.fail(bad[0], bad[1] + "; programs %r, schedule %r" % (ps["progs"], [t for t, _ in sc.trace]),
                     {"kind": "race", "ps": ps, "schedule": [t for t, _ in sc.trace], "signature": bad[0]})
    for prefix, sc, (outcome, info) in S.explore(once, bound, max_runs):
        see(sc, outcome, info)
    exhaustive = runs[0] < max_runs and bound >= 50
    for _ in range(nrandom):
        sc, outcome, info = run_once(world, ps, S.random_policy(rng, 0.5), hk_guarded)
        see(sc, outcome, info)
    if modes is not None:
        lines.append(race_line(ps, modes))
        reals.append(outcomes)
        meta.append((ps, exhaustive))
    ctx.count("race:exhaustive" if exhaustive else "race:bounded")
    return first_bad[0]


def interleavings(ctx, corr=True, judge_corpus=True):
    from props import c10 as base
    rng = ctx.sub_rng("race")
    world, restore = base.make_world()
    modes = extracted_modes()
    hk_guarded = housekeeper_guarded()
    lines, reals, meta = [], [], []
    try:
        # corpus witnesses first: replay the recorded schedule
        for f, c in base._corpus("race"):
            ps = _norm_ps(c["ps"])
            sc, outcome, info = run_once(world, ps, S.replay_policy(c["schedule"]), hk_guarded)
            ctx.evaluations += 1
            bad = judge(ps, sc, outcome, info)
            if bad:
                ctx.fail(bad[0], "corpus witness %s reproduces: %s" % (f, bad[1]), c)
        quick = ctx.tier != "thorough"
        mult = 3 if (ctx.search_mode and quick) else 1
        sets = [(ps, 99, (500 if quick else 20000) * mult) for ps in PROGRAM_SETS]
        for _ in range((10 if quick else 100) * mult):
            sets.append((gen_program_set(rng), 2 if quick else 3, 120 if quick else 800))
        for ps, bound, max_runs in sets:
            explore_set(ctx, world, ps, modes if corr else None, hk_guarded, bound, max_runs, rng, 10 if ctx.tier == "quick" else 100, lines, reals, meta)
    finally:
        restore()
    if corr and lines:
        outs = common.run_driver("drv_c10", lines)
        ctx.corr_cases += len(lines)
        for l, real, o, (ps, exhaustive) in zip(lines, reals, outs, meta):
            model = set(o.split(" || ")) if o and o != "bad-op" else set()
            extra = sorted(real - model)
            missing = sorted(model - real) if exhaustive else []
            if extra or missing or o == "bad-op":
                ctx.mismatch("interleavings", {"kind": "race", "ps": ps, "line": l},
                             {"only-real": extra[:5], "n-real": len(real)}, {"only-model": missing[:5], "n-model": len(model)})
        if len(ctx.samples) < 6:
            ctx.sample({"race": lines[0], "outcomes": sorted(reals[0])[:6]})


def _norm_ps(ps):
    ps = dict(ps)
    ps["table"] = [tuple(e) for e in ps["table"]]
    ps["heap"] = [[tuple(i) for i in items] for items in ps["heap"]]
    ps["progs"] = [[tuple(c) for c in p] for p in ps["progs"]]
    return ps


def replay_case(c):
    from props import c10 as base
    world, restore = base.make_world()
    try:
        ps = _norm_ps(c["ps"])
        sc, outcome, info = run_once(world, ps, S.replay_policy(c["schedule"]), housekeeper_guarded())
        print("programs", ps["progs"], "table", ps["table"], "heap", ps["heap"], "lifetime/linger", ps["lifetime"], ps["linger"])
        print("schedule", c["schedule"])
        print("trace", sc.trace)
        print("outcome", outcome, info)
        bad = judge(ps, sc, outcome, info)
        print("VIOLATION reproduced [%s]: %s" % bad if bad else "not reproduced")
        return 1 if bad else 0
    finally:
        restore()
