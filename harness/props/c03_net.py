"""
C03 rig: a REAL Pyro5 Proxy against the REAL Daemon (_handshake / handleRequest), joined by an in-memory
transport that applies a *fault script*: one event per request message (CONNECT or INVOKE) the proxy sends.

  ("ok",) delivered                         ("lo",) reply lost -> read times out
  ("la", f) reply late: first f/1000 of its bytes, read times out, then the rest arrives on that connection
  ("cu", f) reply cut at f/1000 of its length, then the connection is reset
  ("rb",) reset before the server saw the request (send raises)      ("ra",) processed, reset before any reply byte
  ("st", a) the reply produced a+1 INVOKE-sends ago is replayed ahead of the real reply
  ("sh",) an earlier CONNECTOK is replayed ahead of the real reply
  ("sq", d) the reply's header seq is altered by 1 + d % 65535       ("du",) the reply is delivered twice
  ("in",) processed; KeyboardInterrupt while the client waits; then the reply arrives

The proxy gets its socket from the patched `Pyro5.socketutil.create_socket`.  The daemon side runs in its own
thread (own thread-local call context), strictly alternating with the client: it handles exactly one message
each time the client has sent a complete one.  Oneway methods run in the real `_OnewayCallThread`, joined at once.
"""
import errno
import os
import collections
import shutil
import socket
import tempfile
import threading
import time

import common

common.repo_on_path()

KINDS = "nxsobBgtfmM"   # … m: method the object no longer has, M: the same, oneway   # normal raises stream oneway batch batch-oneway getattr setattr fetch


class ScriptEnd(BaseException):
    """the fault script ran out"""


class Stuck(BaseException):
    """the client reads but nothing will ever arrive (harness/model inconsistency)"""


LINGER = 30.0      # config.ITER_STREAM_LINGER while the rig is alive (virtual seconds)


class Clock:
    """stands for the `time` module inside Pyro5.server: time() is virtual, everything else is the real module"""

    def __init__(self, real):
        self._real = real
        self.now = 1000.0

    def time(self):
        return self.now

    def __getattr__(self, name):
        return getattr(self._real, name)


class SrvSock:
    """server side of one in-memory connection"""
    family = socket.AF_INET

    def __init__(self, idx):
        self.idx = idx
        self.inbound = bytearray()
        self.sent = bytearray()
        self.closed = False

    def recv(self, n, flags=0):
        if not self.inbound:
            raise ConnectionResetError(errno.ECONNRESET, "no request pending")
        chunk = bytes(self.inbound[:n])
        del self.inbound[:n]
        return chunk

    def send(self, data):
        self.sent += bytes(data)
        return len(data)

    def sendall(self, data):
        self.sent += bytes(data)

    def gettimeout(self):
        return None

    def settimeout(self, t):
        pass

    def setblocking(self, b):
        pass

    def getpeername(self):
        return ("fake-client", self.idx)

    def getsockname(self):
        return ("fake-server", 0)

    def shutdown(self, how):
        pass

    def close(self):
        self.closed = True

    def fileno(self):
        return 2000 + self.idx


class Chunk:
    __slots__ = ("data", "pos", "meta", "complete")

    def __init__(self, data, meta, complete=True):
        self.data = data
        self.pos = 0
        self.meta = meta            # dict(kind="inv"|"hs", send=<n>, call=<idx>, altered=bool)
        self.complete = complete    # a whole message (False: a cut-off part)


class ClientSock:
    """the socket handed to the proxy"""
    family = socket.AF_INET

    def __init__(self, net, idx):
        self.net = net
        self.idx = idx
        self.out = bytearray()
        self.inq = []               # unread chunks
        self.pending = None         # None | "timeout" | "closed" | "intr": what a read on an empty queue raises
        self.later = []             # chunks arriving after the pending timeout / interrupt
        self.dead = False
        self.closed = False
        self.timeout = None
        self.srv = SrvSock(idx)
        self.srvconn = net.rig.socketutil.SocketConnection(self.srv)

    # ---- socket API used by Pyro5.socketutil ----------------------------------------------------
    def gettimeout(self):
        return self.timeout

    def settimeout(self, t):
        self.timeout = t

    def setblocking(self, b):
        pass

    def getsockname(self):
        return ("fake-client", self.idx)

    def getpeername(self):
        return ("fake-server", 0)

    def setsockopt(self, *a):
        pass

    def shutdown(self, how):
        pass

    def close(self):
        self.closed = True
        self.net.rig.disconnected(self)

    def fileno(self):
        return 3000 + self.idx

    def send(self, data):
        self.sendall(data)
        return len(data)

    def sendall(self, data):
        if self.closed:
            raise OSError(errno.EBADF, "closed")
        if self.dead:
            self.net.dead_send(self, bytes(data))
            raise BrokenPipeError(errno.EPIPE, "connection was reset")
        self._arrive()
        self.pending = None
        self.out += bytes(data)
        while len(self.out) >= 40:
            size = 40 + int.from_bytes(self.out[12:16], "big") + int.from_bytes(self.out[16:20], "big")
            if len(self.out) < size:
                break
            msg = bytes(self.out[:size])
            del self.out[:size]
            self.net.on_request(self, msg)

    def _arrive(self):
        if self.later:
            self.inq.extend(self.later)
            self.later = []

    def recv(self, n, flags=0):
        if self.closed:
            raise OSError(errno.EBADF, "closed")
        while self.inq and self.inq[0].pos >= len(self.inq[0].data):
            self.inq.pop(0)
        if self.inq:
            c = self.inq[0]
            out = c.data[c.pos:c.pos + n]
            c.pos += len(out)
            if c.pos >= len(c.data):
                self.inq.pop(0)
                if c.complete:
                    self.net.consumed(c.meta)
            return out
        p = self.pending
        self.pending = None
        if p == "timeout":
            self._arrive()
            raise socket.timeout("scripted timeout")
        if p == "closed":
            raise ConnectionResetError(errno.ECONNRESET, "scripted reset")
        if p == "intr":
            self._arrive()
            raise KeyboardInterrupt()
        raise Stuck("read on connection %d: nothing will arrive" % self.idx)

    def unread(self):
        return sum(1 for c in self.inq if c.complete and c.pos == 0) + sum(1 for c in self.later if c.complete and c.pos == 0)


class Net:
    """the transport of one history: fault script, reply history, bookkeeping for the oracle"""

    def __init__(self, rig, script):
        self.rig = rig
        self.script = [tuple(e) for e in script]
        self.pos = 0
        self.hist = []              # per INVOKE send: reply bytes+meta or None
        self.hs_replies = []        # CONNECTOK chunks produced so far (bytes, meta)
        self.connects = 0
        self.sends = 0              # INVOKE sends (incl. those that never reached the server)
        self.call = -1              # index of the user call in progress
        self.cur = (None, None)     # its (kind, token)
        self.calls = {}             # call idx -> bookkeeping
        self.server_errors = []

    def book(self):
        return self.calls.setdefault(self.call, {"events": [], "processed": 0, "consumed": [], "failed_after_processing": 0})

    def create_socket(self, *a, **kw):
        self.connects += 1
        return ClientSock(self, self.connects)

    def next_event(self):
        if self.pos >= len(self.script):
            raise ScriptEnd()
        ev = self.script[self.pos]
        self.pos += 1
        self.book()["events"].append(ev)
        return ev

    def consumed(self, meta):
        self.book()["consumed"].append(meta)

    def dead_send(self, sock, msg):
        self.sends += 1
        self.hist.append(None)

    def on_request(self, sock, msg):
        protocol = self.rig.protocol
        mtype = msg[6]
        invoke = mtype == protocol.MSG_INVOKE
        ev = self.next_event()
        if invoke:
            self.sends += 1
        if ev[0] == "rb":
            sock.dead = True
            self.rig.disconnected(sock)
            if invoke:
                self.hist.append(None)
            raise ConnectionResetError(errno.ECONNRESET, "scripted reset before delivery")
        reply = self.rig.serve(self, sock, msg, invoke)
        b = self.book()
        if invoke:
            b["processed"] += 1
            meta = {"kind": "inv", "send": self.sends, "call": self.call, "altered": False, "ckind": self.cur[0], "ctok": self.cur[1]}
        else:
            meta = {"kind": "hs", "send": self.sends, "call": self.call, "altered": False}
        stale = None
        if ev[0] == "st":
            a = ev[1]
            if a < len(self.hist) and self.hist[-1 - a] is not None:
                stale = self.hist[-1 - a]
        if ev[0] == "sh":
            stale = self.hs_replies[-1] if self.hs_replies else (reply, meta)
        if invoke:
            self.hist.append((reply, meta) if reply else None)
        elif reply:
            self.hs_replies.append((reply, meta))
        now, later = [], []
        k = ev[0]
        if k in ("ok", "st", "sh"):
            if stale is not None:
                now.append(Chunk(stale[0], stale[1]))
            if reply:
                now.append(Chunk(reply, meta))
        elif k == "du":
            if reply:
                now += [Chunk(reply, meta), Chunk(reply, meta)]
        elif k == "sq":
            if reply:
                seq = int.from_bytes(reply[10:12], "big")
                seq2 = (seq + 1 + ev[1] % 65535) % 65536
                now.append(Chunk(reply[:10] + seq2.to_bytes(2, "big") + reply[12:], dict(meta, altered=True)))
        elif k == "lo":
            sock.pending = "timeout"
        elif k in ("la", "in"):
            sock.pending = "timeout" if k == "la" else "intr"
            cut = (len(reply) * ev[1] // 1000) if k == "la" else 0
            if reply:
                if cut:
                    now.append(Chunk(reply[:cut], meta, complete=False))
                    later.append(Chunk(reply[cut:], meta, complete=False))
                else:
                    later.append(Chunk(reply, meta))
        elif k in ("cu", "ra"):
            sock.pending = "closed"
            sock.dead = True
            self.rig.disconnected(sock)
            cut = (len(reply) * ev[1] // 1000) if k == "cu" else 0
            if reply and cut:
                now.append(Chunk(reply[:cut], meta, complete=False))
        else:
            raise AssertionError(ev)
        sock.inq.extend(now)
        sock.later = later


def _unblob(x):
    """an argument that travelled as a SerializedBlob (kept serialized until the method asks for it)"""
    from Pyro5 import client
    return x.deserialized()[0] if isinstance(x, client.SerializedBlob) else x


class Rig:
    """one real Daemon serving a Target object; `history()` runs one proxy over one fault script"""

    def __init__(self):
        from Pyro5 import config, server, client, protocol, socketutil, errors, core, callcontext
        self.config, self.server, self.client, self.protocol = config, server, client, protocol
        self.socketutil, self.errors, self.core = socketutil, errors, core
        self.saved = (config.SERVERTYPE, config.MAX_RETRIES, config.COMMTIMEOUT, config.SERIALIZER, config.ITER_STREAMING,
                      config.LOGWIRE, config.COMPRESSION, socketutil.create_socket, server._OnewayCallThread)
        self.saved2 = (config.ITER_STREAM_LINGER, config.ITER_STREAM_LIFETIME, server.time)
        config.ITER_STREAM_LINGER = LINGER       # a stream survives the loss of its connection for LINGER virtual seconds
        config.ITER_STREAM_LIFETIME = 0.0
        self.clock = server.time = Clock(self.saved2[2])
        config.SERVERTYPE = "multiplex"
        config.COMMTIMEOUT = 0.0
        config.SERIALIZER = "serpent"
        config.ITER_STREAMING = True
        config.LOGWIRE = False
        config.COMPRESSION = False
        self.tmp = tempfile.mkdtemp(prefix="c03rig")
        rig = self

        orig_start = server._OnewayCallThread.start

        def joined_start(thread):          # the real oneway thread runs the method; the daemon side waits for it
            orig_start(thread)
            thread.join()
        server._OnewayCallThread.start = joined_start
        self.orig_oneway_start = orig_start

        @server.expose
        class Target(object):
            def __init__(self):
                self.log = collections.Counter()
                self.nlog = 0               # total number of executions (all tokens)
                self.cur = None
                self.gens = {}

            def _hit(self, key):
                self.log[key] += 1
                self.nlog += 1

            def __getattribute__(self, name):
                # the metadata (taken from the class) still lists these two methods, the object no longer has them
                if name in ("ghost", "owghost"):
                    raise AttributeError("this object has no attribute %r any more" % name)
                return object.__getattribute__(self, name)

            def ghost(self, tok):
                self._hit((_unblob(tok), 0))
                return ["val", _unblob(tok), 0]

            @server.oneway
            def owghost(self, tok):
                self._hit((_unblob(tok), 0))

            def run(self, tok, i=0):
                tok = _unblob(tok)
                self._hit((tok, i))
                return ["val", tok, i]

            def boom(self, tok):
                tok = _unblob(tok)
                self._hit((tok, 0))
                raise ValueError("boom", tok)

            def strm(self, tok):
                tok = _unblob(tok)
                self._hit((tok, 0))
                g = iter([["first", tok]])
                self.gens[tok] = g
                return g

            @server.oneway
            def ow(self, tok):
                self._hit((_unblob(tok), 0))

            @property
            def attr(self):
                self._hit((self.cur, 0))
                return ["attr", self.cur]

            @attr.setter
            def attr(self, v):
                self._hit((v, 0))

        self.target = Target()
        self.daemon = server.Daemon(unixsocket=os.path.join(self.tmp, "sock"))
        self.daemon.register(self.target, "target")
        # the daemon side gets its own copy of the thread-local call context, as it would have in its own thread
        self.cc = callcontext.current_context
        fresh = {}
        th = threading.Thread(target=lambda: fresh.update(self.cc.__dict__))
        th.start()
        th.join()
        self.server_ctx = fresh
        self.net = None
        socketutil.create_socket = lambda *a, **kw: rig.net.create_socket(*a, **kw)

    def disconnected(self, sock):
        """the daemon's transport notices that a connection is gone (svr_multiplex.py:88 / svr_threads.py:61)"""
        if not getattr(sock, "disconnect_seen", False):
            sock.disconnect_seen = True
            self.daemon._clientDisconnect(sock.srvconn)

    def after_fetch(self):
        """virtual time: more than the linger period passes right after a stream fetch was answered (the stream is
        attached to a live connection then), and the daemon's periodic housekeeping runs.  Streams that are waiting for
        their client to come back never age, so the unchanged daemon never expires one in these histories."""
        self.clock.now += 2 * LINGER
        self.daemon._housekeeping()

    def serve(self, net, sock, msg, invoke):
        """the daemon handles one message on the server side of `sock`; returns the bytes it sent back"""
        srv = sock.srv
        srv.inbound += msg
        del srv.sent[:]
        d = self.cc.__dict__
        client_ctx = dict(d)
        d.clear()
        d.update(self.server_ctx)
        try:
            if invoke:
                self.daemon.handleRequest(sock.srvconn)
            else:
                self.daemon._handshake(sock.srvconn)
        except Exception as x:       # what the transport servers do: log, drop the connection
            net.server_errors.append(x)
        finally:
            self.server_ctx = dict(d)
            d.clear()
            d.update(client_ctx)
        return bytes(srv.sent)

    def close(self):
        config, server, socketutil = self.config, self.server, self.socketutil
        try:
            self.daemon.close()
        finally:
            (config.SERVERTYPE, config.MAX_RETRIES, config.COMMTIMEOUT, config.SERIALIZER, config.ITER_STREAMING,
             config.LOGWIRE, config.COMPRESSION, socketutil.create_socket, server._OnewayCallThread) = self.saved
            server._OnewayCallThread.start = self.orig_oneway_start
            config.ITER_STREAM_LINGER, config.ITER_STREAM_LIFETIME, server.time = self.saved2
            shutil.rmtree(self.tmp, ignore_errors=True)

    # ---------------------------------------------------------------------------------------------
    def history(self, retries, seq0, calls, script, stop_on_end=True, gretries=None, raw=False, blob=False):
        """run one history; returns (records, net).  record = dict(out, delta, state, seq, connects, consumed, unread, ...)
        retries  = the proxy's own _pyroMaxRetries;  gretries = config.MAX_RETRIES (default: the same value);
        raw      = the proxy runs in wire-level response mode (_pyroRawWireResponse, as the HTTP gateway does);
        blob     = method arguments travel as a SerializedBlob (the keep-serialized form gateways use);
        one BatchProxy object is re-used for all batches of the history (a new one after a failed submit)."""
        errors, client = self.errors, self.client
        t = self.target
        t.log, t.nlog, t.cur, t.gens = collections.Counter(), 0, None, {}
        self.daemon.streaming_responses.clear()
        net = self.net = Net(self, script)
        self.config.MAX_RETRIES = retries if gretries is None else gretries
        proxy = client.Proxy("PYRO:target@fakehost:4321")
        proxy._pyroMaxRetries = retries
        proxy._pyroRawWireResponse = bool(raw)
        proxy._pyroSeq = seq0 % 65536
        self.batch, self.batch_uses = None, 0
        self.blob = bool(blob)
        net.sends = 0
        sid = "c03-feed"

        def feed():
            while True:
                t._hit((t.cur, 0))
                yield ["item", t.cur]
        self.daemon.streaming_responses[sid] = (None, self.clock.now, 0, feed())
        fetcher = client._StreamResultIterator(sid, proxy)
        recs = []
        try:
            for idx, (kind, tok) in enumerate(calls):
                net.call = idx
                net.cur = (kind, tok)
                book = net.book()
                t.cur = tok
                before = t.log[(tok, 0)]
                own_keys = [(tok, i) for i in range(BATCH)] if kind in "bB" else [(tok, 0)]
                own_before = sum(t.log[k] for k in own_keys)
                total_before = t.nlog
                pos0 = net.pos
                upcoming = list(net.script[pos0:pos0 + 2])
                value = exc = None
                try:
                    value = self._do(proxy, fetcher, kind, tok)
                    tag = "returned"
                    if kind == "f":
                        self.after_fetch()
                except ScriptEnd:
                    tag = "end"
                except Stuck:
                    tag = "stuck"
                except KeyboardInterrupt:
                    tag = "fail:intr"
                except BaseException as x:      # noqa
                    exc = x
                    if isinstance(x, errors.ConnectionClosedError):
                        tag = "fail:closed"
                    elif isinstance(x, errors.TimeoutError):
                        tag = "fail:timeout"
                    elif isinstance(x, errors.ProtocolError):
                        tag = "fail:protocol"
                    elif hasattr(x, "_pyroTraceback") and not isinstance(x, errors.CommunicationError):
                        tag = "raised"          # the remote method's exception, re-raised by the proxy
                    elif isinstance(x, errors.CommunicationError):
                        tag = "fail:comm"
                    else:
                        tag = "error:" + type(x).__name__
                conn = proxy._pyroConnection
                if conn is None:
                    state, unread = ("I" if (proxy._pyroMethods or proxy._pyroAttrs) else "F"), 0
                else:
                    state, unread = ("D" if conn.sock.dead else "L"), conn.sock.unread()
                rec = {"idx": idx, "kind": kind, "tok": tok, "tag": tag, "value": value, "exc": exc,
                       "delta": t.log[(tok, 0)] - before, "state": state, "seq": proxy._pyroSeq,
                       "connects": net.connects, "consumed": net.pos - pos0, "unread": unread,
                       "events": list(book["events"]), "processed": book["processed"], "upcoming": upcoming,
                       "msgs": list(book["consumed"]), "sends": net.sends,
                       "foreign_execs": (t.nlog - total_before) - (sum(t.log[k] for k in own_keys) - own_before),
                       "subcounts": sorted(set(t.log[(tok, i)] for i in range(BATCH)) if kind in "bB" else [])}
                recs.append(rec)
                if tag in ("end", "stuck") and stop_on_end:
                    break
        finally:
            fetcher.proxy = None
            try:
                proxy._pyroRelease()
            except Exception:
                pass
            self.net = None
        return recs, net

    def _decode(self, r):
        """wire-level response mode: the proxy hands back the received message; decode it as the proxy would have"""
        protocol = self.protocol
        if not isinstance(r, protocol.ReceivingMessage):
            return r
        from Pyro5 import serializers
        data = serializers.serializers_by_id[r.serializer_id].loads(r.data)
        if r.flags & protocol.FLAGS_ITEMSTREAMRESULT:
            sid = bytes(r.annotations.get("STRM", b"")).decode()
            g = self.daemon.streaming_responses.pop(sid, (None, 0, 0, None))[3]
            return ("stream", [k for k, v in self.target.gens.items() if v is g])
        if r.flags & protocol.FLAGS_EXCEPTION:
            raise data
        return data

    def _do(self, proxy, fetcher, kind, tok):
        client = self.client
        arg = client.SerializedBlob("c03", (tok,)) if self.blob else tok
        if kind == "n":
            return self._decode(proxy.run(arg))
        if kind == "x":
            return self._decode(proxy.boom(arg))
        if kind == "m":
            return self._decode(proxy.ghost(arg))
        if kind == "M":
            return self._decode(proxy.owghost(arg))
        if kind == "s":
            it = proxy.strm(arg)
            if isinstance(it, client._StreamResultIterator):
                sid = it.streamId
                it.proxy = None          # no close_stream call when the iterator is collected
                g = self.daemon.streaming_responses.pop(sid, (None, 0, 0, None))[3]
                return ("stream", [k for k, v in self.target.gens.items() if v is g])
            return self._decode(it)
        if kind == "o":
            return self._decode(proxy.ow(arg))
        if kind in "bB":
            # one BatchProxy object serves every batch of the history (its call list is cleared by each submit);
            # after a submit that raised the calls stay queued by design, so a new object is taken then
            # (and after BATCH_REUSE submits, which bounds the request size should a submit ever fail to clear)
            b = self.batch
            if b is None or self.batch_uses >= BATCH_REUSE:
                b = self.batch = client.BatchProxy(proxy)
                self.batch_uses = 0
            self.batch_uses += 1
            for i in range(BATCH):
                b.run(tok, i)
            try:
                if proxy._pyroRawWireResponse and kind == "b":
                    r = proxy._pyroInvokeBatch(list(b._BatchProxy__calls))      # the result generator cannot iterate a raw message
                    b._BatchProxy__calls = []
                    return self._decode(r)
                r = b(oneway=(kind == "B"))
                return None if r is None else list(r)
            except BaseException:
                self.batch = None
                raise
        if kind == "g":
            return self._decode(proxy.attr)
        if kind == "t":
            proxy.attr = tok
            return None
        if kind == "f":
            return self._decode(next(fetcher))
        raise AssertionError(kind)


BATCH = 3
BATCH_REUSE = 4


def content_identity(value, exc):
    """(kind, token) named by what the caller received, or None when the content names no call (None result)"""
    if exc is not None:
        a = getattr(exc, "args", ())
        if isinstance(exc, ValueError) and len(a) == 2 and a[0] == "boom":
            return ("x", a[1])
        if isinstance(exc, AttributeError) and a and "no attribute 'ghost' any more" in str(a[0]):
            return ("m", None)        # the daemon's own error for the missing method; it names no token
        return ("?", repr(exc)[:80])
    v = value
    if v is None:
        return None
    if isinstance(v, tuple) and v and v[0] == "stream":
        return ("s", v[1][0]) if len(v[1]) == 1 else ("?", "unknown stream")
    if isinstance(v, list) and len(v) == 3 and v[0] == "val":
        return ("n", v[1])
    if isinstance(v, list) and len(v) == 2 and v[0] == "attr":
        return ("g", v[1])
    if isinstance(v, list) and len(v) == 2 and v[0] == "item":
        return ("f", v[1])
    if isinstance(v, list) and len(v) == BATCH and all(isinstance(e, list) and len(e) == 3 and e[0] == "val" for e in v) \
            and [e[2] for e in v] == list(range(BATCH)) and len({e[1] for e in v}) == 1:
        return ("b", v[0][1])
    return ("?", repr(v)[:80])
