"""
C18 helper: the life of ONE connection in the thread-pool server, on the REAL code with in-memory fakes.

`run_job(hs, reqs, hook_raises, ct)`   runs the real ClientConnectionJob.__call__ (as a worker would) against a fake
daemon whose `_handshake` / `handleRequest` / `_clientDisconnect` end as the script says, on a fake socket;
`run_deny(hs_raises, ct)`               runs the real denyConnection;
`run_accept(ct, pool_full, hs_raises)`  runs the real SocketServer_Threadpool.events() once, with a fake listening
socket / selector / pool (the pool either takes the job or raises the real NoFreeWorkersError).
Each returns the sequence of effects on the connection's socket as numbers (PyroModel/PoolConn.lean `Eff.code`):
1 settimeout, 2 handshake, 3 refusing handshake, 4 request, 5 disconnect hook, 6 close, 7 accept, 8 handed to the pool;
plus `info`: whether the socket had a timeout when a (blocking) handshake read started, what came out of the call.
No threads, no real sockets, no sleeping.
"""
import logging

import common

HS = ["ok", "refused", "raises"]
REQ = ["served", "connClosed", "sockError", "security", "timeout", "otherError"]
COMMTIMEOUT = 2.5


class FakeSock:
    def __init__(self, trace):
        self.trace = trace
        self.timeout = None
        self.closed = 0

    def settimeout(self, t):
        self.timeout = t
        if t is not None:
            self.trace.append(1)

    def gettimeout(self):
        return self.timeout

    def shutdown(self, how):
        pass

    def close(self):
        self.closed += 1
        self.trace.append(6)

    def fileno(self):
        return -1

    def getpeername(self):
        return ("fake", 0)

    def getsockname(self):
        return ("fake", 1)

    def setblocking(self, b):
        pass


class FakeDaemon:
    def __init__(self, trace, info, hs, reqs, hook_raises, deny_raises=False):
        self.trace, self.info = trace, info
        self.hs, self.reqs, self.hook_raises, self.deny_raises = hs, list(reqs), hook_raises, deny_raises

    def _handshake(self, conn, denied_reason=None):
        self.info["timeout_at_handshake"] = conn.sock.gettimeout()
        self.info["closed_at_handshake"] = conn.sock.closed
        if denied_reason is not None:
            self.trace.append(3)
            self.info["denied_reason"] = denied_reason
            if self.deny_raises:
                raise OSError("peer is gone")
            return False
        self.trace.append(2)
        if self.hs == "raises":
            raise ValueError("handshake fails")
        return self.hs == "ok"

    def handleRequest(self, conn):
        from Pyro5 import errors
        self.trace.append(4)
        if not self.reqs:
            # cannot happen: every script ends with a request that ends the connection
            raise errors.ConnectionClosedError("script ran out")
        r = self.reqs.pop(0)
        if r == "served":
            return
        if r == "connClosed":
            raise errors.ConnectionClosedError("client went away")
        if r == "sockError":
            raise OSError("socket error")
        if r == "security":
            raise errors.SecurityError("security")
        if r == "timeout":
            raise errors.TimeoutError("timeout")
        raise ValueError("other error")

    def _clientDisconnect(self, conn):
        self.trace.append(5)
        self.info["closed_at_hook"] = conn.sock.closed
        if self.hook_raises:
            raise RuntimeError("clientDisconnect hook fails")


class _Quiet:
    def __enter__(self):
        self.logs = [logging.getLogger("Pyro5.threadpoolserver")]
        self.was = [l.disabled for l in self.logs]
        for l in self.logs:
            l.disabled = True

    def __exit__(self, *a):
        for l, w in zip(self.logs, self.was):
            l.disabled = w


def _with_ct(ct, fn):
    from Pyro5 import config
    saved = config.COMMTIMEOUT
    config.COMMTIMEOUT = COMMTIMEOUT if ct else 0.0
    try:
        with _Quiet():
            return fn()
    finally:
        config.COMMTIMEOUT = saved


def run_job(hs, reqs, hook_raises, ct=True):
    common.repo_on_path()
    from Pyro5 import svr_threads
    trace, info = [], {}
    sock = FakeSock(trace)
    daemon = FakeDaemon(trace, info, hs, reqs, hook_raises)

    def go():
        job = svr_threads.ClientConnectionJob(sock, ("fake", 0), daemon)
        try:
            job()
            info["raised"] = None
        except Exception as e:      # noqa
            info["raised"] = type(e).__name__
        info["closed"] = sock.closed          # read while the job (and its SocketConnection) is still referenced:
        info["trace"] = list(trace)           # SocketConnection.__del__ closes once more when the job is collected
    _with_ct(ct, go)
    return info.pop("trace"), info


def run_deny(hs_raises, ct=True):
    common.repo_on_path()
    from Pyro5 import svr_threads
    trace, info = [], {}
    sock = FakeSock(trace)
    daemon = FakeDaemon(trace, info, "ok", [], False, deny_raises=hs_raises)

    def go():
        job = svr_threads.ClientConnectionJob(sock, ("fake", 0), daemon)
        try:
            job.denyConnection("no free workers, increase server threadpool size")
            info["raised"] = None
        except Exception as e:      # noqa
            info["raised"] = type(e).__name__
        info["closed"] = sock.closed
        info["trace"] = list(trace)
    _with_ct(ct, go)
    return info.pop("trace"), info


def run_accept(ct, pool_full, hs_raises=False):
    common.repo_on_path()
    from Pyro5 import svr_threads
    trace, info = [], {}
    csock = FakeSock(trace)
    daemon = FakeDaemon(trace, info, "ok", [], False, deny_raises=hs_raises)
    keep = []

    class Listen:
        def accept(self_):
            trace.append(7)
            return csock, ("fake", 0)

    class Selector:
        def select(self_, timeout=None):
            return [object()]

    class FakePool:
        def process(self_, job):
            keep.append(job)
            info["timeout_at_process"] = csock.gettimeout()
            if pool_full:
                raise svr_threads.NoFreeWorkersError("no free workers available, increase thread pool size")
            trace.append(8)

        def close(self_):
            pass

        def num_workers(self_):
            return 0

    def go():
        srv = svr_threads.SocketServer_Threadpool()
        real_selector = srv._selector
        srv.daemon = daemon
        srv.sock = Listen()
        srv._selector = Selector()
        srv.pool = FakePool()
        try:
            srv.events([srv.sock])
            info["raised"] = None
        except Exception as e:      # noqa
            info["raised"] = type(e).__name__
        info["closed"] = csock.closed
        info["trace"] = list(trace)
        srv.sock = None
        srv.pool = None
        try:
            real_selector.close()
        except Exception:
            pass
    _with_ct(ct, go)
    del keep[:]
    return info.pop("trace"), info


def probe_tables():
    """every script: handshake outcome x hook outcome x (0..2 served requests then one ending request), and the accept step"""
    jobs, denies, accepts = [], [], []
    for ct in (0, 1):
        for hi, hs in enumerate(HS):
            for hook in (0, 1):
                scripts = [[]] if hs != "ok" else [[0] * n + [e] for n in range(3) for e in range(1, len(REQ))]
                for sc in scripts:
                    trace, info = run_job(hs, [REQ[i] for i in sc], bool(hook), bool(ct))
                    jobs.append([[hi, hook, ct, 0 if info.get("raised") is None else 1], sc, trace])
        for r in (0, 1):
            trace, info = run_deny(bool(r), bool(ct))
            denies.append([[r, ct, 0 if info.get("raised") is None else 1], [], trace])
        for full in (0, 1):
            for r in (0, 1):
                trace, info = run_accept(bool(ct), bool(full), bool(r))
                t_ok = 1 if (not full or not ct or info.get("timeout_at_handshake") is not None) else 0
                accepts.append([[ct, full, r, 0 if info.get("raised") is None else 1, t_ok], [], trace])
    return {"job": jobs, "deny": denies, "accept": accepts}
