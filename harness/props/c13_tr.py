"""C13 — per-property translator: python `ast` of SocketServer_Multiplex.events -> Lean source text (shallow embedding over
lean/PyroModel/Cleanup.lean: `Stmt` combinators over the model's own state `Mux` and ready sockets `Ev`).

SOUND BY REFUSAL: every statement kind, call target, attribute, operator and name that is not explicitly understood below raises
`Untranslatable`.  Skipped silently: docstrings, `log.*(...)` calls (the object must BE the module's logger).  Normalised:
locals renamed canonically in order of first binding (Lean binders v0, v1, ...), private helpers of the same class inlined at the
call site with their parameters bound to the arguments, `if not c: A else: B` = `if c: B else: A`, `x is not y` = `not (x is y)`,
a collaborator called in the condition = called, bound to a fresh local, then tested; names of constants / exception classes are
resolved through the real module (an `except T` clause becomes two Booleans: does T catch every Exception subclass / BaseException).
A local is visible only in the block that binds it and the blocks nested in it: a use outside (e.g. a loop variable read after its
loop) is refused.
"""
import ast
import inspect
import logging
import textwrap


class Untranslatable(Exception):
    pass


class EventsTr:
    def __init__(self, module, cls):
        self.mod = module
        self.cls = cls
        self.n = 0
        self.depth = 0

    def fresh(self):
        v = "v%d" % self.n
        self.n += 1
        return v

    def resolve(self, node):
        """value of a dotted name in the real module"""
        if isinstance(node, ast.Name):
            if not hasattr(self.mod, node.id):
                import builtins
                if hasattr(builtins, node.id):
                    return getattr(builtins, node.id)
                raise Untranslatable("unknown global %s" % node.id)
            return getattr(self.mod, node.id)
        if isinstance(node, ast.Attribute):
            return getattr(self.resolve(node.value), node.attr)
        if isinstance(node, ast.Tuple):
            return tuple(self.resolve(e) for e in node.elts)
        raise Untranslatable("not a resolvable name: %s" % ast.dump(node))

    @staticmethod
    def is_self_attr(node, *path):
        for attr in reversed(path):
            if not (isinstance(node, ast.Attribute) and node.attr == attr):
                return False
            node = node.value
        return isinstance(node, ast.Name) and node.id == "self"

    def func_ast(self, name):
        fn = inspect.getattr_static(self.cls, name, None)
        if fn is None:
            raise Untranslatable("no method %s" % name)
        if isinstance(fn, (staticmethod, classmethod)):
            raise Untranslatable("static/class method %s" % name)
        t = ast.parse(textwrap.dedent(inspect.getsource(fn)))
        f = t.body[0]
        if not isinstance(f, ast.FunctionDef) or f.decorator_list:
            raise Untranslatable("unexpected definition of %s" % name)
        return f

    def params(self, f):
        a = f.args
        if a.vararg or a.kwarg or a.kwonlyargs or a.defaults or a.posonlyargs:
            raise Untranslatable("parameter list of %s" % f.name)
        return [x.arg for x in a.args]

    # ---- expressions -------------------------------------------------------------------------------------------
    def var(self, node, env, *types):
        if not (isinstance(node, ast.Name) and node.id in env):
            raise Untranslatable("not a visible local: %s" % ast.unparse(node))
        lean, ty = env[node.id]
        if ty not in types:
            raise Untranslatable("local %s has kind %s, wanted %s" % (node.id, ty, types))
        return lean, ty

    def conn_id(self, node, env):
        lean, ty = self.var(node, env, "ev", "conn")
        return "%s.id" % lean if ty == "ev" else lean

    def is_listener_arg(self, node, env):
        """`self.sock`, or a ready socket (inside the branch where it is the listening socket the model reads its outcome)"""
        return self.is_self_attr(node, "sock")

    def cond(self, test, env, then, orelse, cur):
        """Lean statement for `if test: then else: orelse` (then / orelse are thunks producing Lean text)"""
        if isinstance(test, ast.UnaryOp) and isinstance(test.op, ast.Not):
            return self.cond(test.operand, env, orelse, then, cur)
        if self.is_self_attr(test, "shutting_down"):
            return "(ifB (fun m => m.shuttingDown) %s %s)" % (then(env), orelse(env))
        if isinstance(test, ast.Compare) and len(test.ops) == 1 and isinstance(test.ops[0], (ast.Is, ast.IsNot)):
            a, b = test.left, test.comparators[0]
            if self.is_self_attr(a, "sock"):
                a, b = b, a
            if not self.is_self_attr(b, "sock"):
                raise Untranslatable("comparison %s" % ast.unparse(test))
            lean, _ = self.var(a, env, "ev")
            if isinstance(test.ops[0], ast.IsNot):
                then, orelse = orelse, then
            return "(ifB (fun _ => %s.isListener) %s %s)" % (lean, then(env), orelse(env))
        if isinstance(test, ast.Name):
            lean, ty = self.var(test, env, "optconn", "bool")
            if ty == "bool":
                return "(ifB (fun _ => %s) %s %s)" % (lean, then(env), orelse(env))
            v = self.fresh()
            env2 = dict(env)
            env2[test.id] = (v, "conn")
            return "(ifTruthy %s (fun %s => %s) %s)" % (lean, v, then(env2), orelse(env))
        if isinstance(test, ast.Call):
            # a collaborator called in the condition: call, bind to a fresh local, test that
            tmp = "$cond%d" % self.n
            return self.bind_call(tmp, test, env, cur,
                                  lambda env2: self.cond(ast.Name(id=tmp, ctx=ast.Load()), env2, then, orelse, cur))
        raise Untranslatable("condition %s" % ast.unparse(test))

    def bind_call(self, name, call, env, cur, rest):
        """`name = <call of a collaborator>` followed by `rest` (a thunk over the extended environment)"""
        if not isinstance(call, ast.Call) or call.keywords:
            raise Untranslatable("assigned value %s" % ast.unparse(call))
        f = call.func
        if self.is_self_attr(f, "_handleConnection") and len(call.args) == 1 and self.is_self_attr(call.args[0], "sock"):
            if cur is None:
                raise Untranslatable("_handleConnection outside the loop over the ready sockets")
            v = self.fresh()
            env2 = dict(env)
            env2[name] = (v, "optconn")
            return "(acceptThen %s (fun %s => %s))" % (cur, v, rest(env2))
        if self.is_self_attr(f, "handleRequest") and len(call.args) == 1:
            lean, _ = self.var(call.args[0], env, "ev")
            v = self.fresh()
            env2 = dict(env)
            env2[name] = (v, "bool")
            return "(handleThen %s (fun %s => %s))" % (lean, v, rest(env2))
        raise Untranslatable("call %s" % ast.unparse(call))

    # ---- statements --------------------------------------------------------------------------------------------
    def is_log_call(self, node):
        if isinstance(node, ast.Call) and isinstance(node.func, ast.Attribute) and isinstance(node.func.value, ast.Name):
            obj = getattr(self.mod, node.func.value.id, None)
            return isinstance(obj, logging.Logger) and node.func.attr in ("debug", "info", "warning", "error", "exception", "critical")
        return False

    def call_stmt(self, call, env, cur, in_helper):
        if call.keywords:
            raise Untranslatable("keyword arguments: %s" % ast.unparse(call))
        f = call.func
        if self.is_self_attr(f, "daemon", "_clientDisconnect") and len(call.args) == 1:
            return "(callHook hr %s)" % self.conn_id(call.args[0], env)
        if self.is_self_attr(f, "daemon", "_housekeeping") and not call.args:
            return "housekeeping"
        if self.is_self_attr(f, "selector", "unregister") and len(call.args) == 1:
            return "(unregister %s)" % self.conn_id(call.args[0], env)
        if self.is_self_attr(f, "selector", "register") and len(call.args) == 3:
            lean, _ = self.var(call.args[0], env, "conn")
            import selectors
            if self.resolve(call.args[1]) != selectors.EVENT_READ or not (isinstance(call.args[2], ast.Name) and call.args[2].id == "self"):
                raise Untranslatable("registration %s" % ast.unparse(call))
            return "(register %s)" % lean
        if isinstance(f, ast.Attribute) and f.attr == "close" and not call.args and isinstance(f.value, ast.Name):
            return "(closeConn %s)" % self.conn_id(f.value, env)
        if isinstance(f, ast.Attribute) and isinstance(f.value, ast.Name) and f.value.id == "self" \
                and f.attr not in ("handleRequest", "_handleConnection"):
            # a helper of the same class: inlined, parameters bound to the arguments
            self.depth += 1
            if self.depth > 4:
                raise Untranslatable("helper nesting")
            h = self.func_ast(f.attr)
            ps = self.params(h)
            if not ps or ps[0] != "self" or len(ps) - 1 != len(call.args):
                raise Untranslatable("arguments of helper %s" % f.attr)
            henv = {}
            for p, a in zip(ps[1:], call.args):
                if not (isinstance(a, ast.Name) and a.id in env):
                    raise Untranslatable("argument of helper %s: %s" % (f.attr, ast.unparse(a)))
                henv[p] = env[a.id]
            out = self.block(h.body, henv, cur, True)
            self.depth -= 1
            return out
        raise Untranslatable("call %s" % ast.unparse(call))

    def block(self, stmts, env, cur, in_helper=False):
        if not stmts:
            return "skip"
        st, rest = stmts[0], stmts[1:]
        tail = lambda e: self.block(rest, e, cur, in_helper)

        def then_rest(lean):
            return lean if not rest else "(seq %s %s)" % (lean, tail(env))
        if isinstance(st, ast.Expr) and isinstance(st.value, ast.Constant) and isinstance(st.value.value, str):
            return tail(env)
        if isinstance(st, ast.Expr) and self.is_log_call(st.value):
            return tail(env)
        if isinstance(st, ast.Pass):
            return tail(env)
        if isinstance(st, ast.Expr) and isinstance(st.value, ast.Call):
            return then_rest(self.call_stmt(st.value, env, cur, in_helper))
        if isinstance(st, ast.Assign) and len(st.targets) == 1 and isinstance(st.targets[0], ast.Name):
            return self.bind_call(st.targets[0].id, st.value, env, cur, tail)
        if isinstance(st, ast.If):
            return then_rest(self.cond(st.test, env, lambda e: self.block(st.body, e, cur, in_helper),
                                       lambda e: self.block(st.orelse, e, cur, in_helper), cur))
        if isinstance(st, ast.Return):
            if st.value is not None or in_helper:
                raise Untranslatable("return %s" % ast.unparse(st))
            if rest:
                raise Untranslatable("statements after return")
            return "ret"
        if isinstance(st, ast.Try):
            if st.orelse or st.finalbody or len(st.handlers) != 1 or st.handlers[0].type is None:
                raise Untranslatable("try statement shape")
            h = st.handlers[0]
            t = self.resolve(h.type)
            ts = t if isinstance(t, tuple) else (t,)
            if not all(isinstance(x, type) and issubclass(x, BaseException) for x in ts):
                raise Untranslatable("except clause %s" % ast.unparse(h.type))
            cu = any(issubclass(Exception, x) for x in ts)
            cb = any(issubclass(BaseException, x) for x in ts)
            henv = dict(env)        # `as x` binds a name no statement of the fragment can read (log calls are skipped)
            b = lambda x: "true" if x else "false"
            return then_rest("(tryExcept %s %s %s %s)" % (self.block(st.body, env, cur, in_helper), b(cu), b(cb),
                                                          self.block(h.body, henv, cur, in_helper)))
        if isinstance(st, ast.For):
            if cur is not None or in_helper or st.orelse or not isinstance(st.target, ast.Name):
                raise Untranslatable("for statement")
            lean, _ = self.var(st.iter, env, "evlist")
            v = self.fresh()
            env2 = dict(env)
            env2[st.target.id] = (v, "ev")
            return then_rest("(forEach %s (fun %s => %s))" % (lean, v, self.block(st.body, env2, v, in_helper)))
        raise Untranslatable("statement %s" % type(st).__name__)


def translate_events(module):
    cls = module.SocketServer_Multiplex
    tr = EventsTr(module, cls)
    f = tr.func_ast("events")
    ps = tr.params(f)
    if len(ps) != 2 or ps[0] != "self":
        raise Untranslatable("parameters of events")
    body = tr.block(f.body, {ps[1]: ("eventsockets", "evlist")}, None)
    return body
