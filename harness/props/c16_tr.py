"""C16 — transcription of the registry functions of Pyro5/server.py into Lean (shallow embedding), regenerated on every run.

python `ast` -> Lean text over the vocabulary of lean/PyroModel/RegistrySrc.lean (state = the model's `State`, python values =
`Src.Val`, a statement list = a term of type `Src.Out` in continuation form).  SOUND BY REFUSAL: every node kind, call target,
attribute and operator that is not explicitly understood raises `Untranslatable`.  Skipped without trace: docstrings, `log.*(…)`
calls, annotations, comments.  Dropped *by rule* (listed in `Tr.notes`): statements that only compute / assign values outside the
model (location strings, `type(x)`, the `_pyroInstancing` default) and cannot raise.

Normalisations: parameters/locals/states are named canonically in order of first binding (a0.., v0.., s0..); module constants are
resolved through the real module (`core.DAEMON_NAME` -> the id `Id.daemon`); helpers (`self._x(..)`, `daemon._x(..)`) are
translated on demand into `@[simp]` definitions, so the proofs see them inlined; control flow is put into one normal form: the
rest of a block is pushed into both branches of an `if` (so `if c: A; return` / `else` forms / guard clauses coincide), negated
tests (`not`, `not in`, `is not`, `!=`) are turned into the positive test with swapped branches, `not x in y` = `x not in y`.
"""
import ast
import inspect
import textwrap
import weakref


class Untranslatable(Exception):
    pass


def U(node, why):
    raise Untranslatable("%s (line %s: %s)" % (why, getattr(node, "lineno", "?"), ast.dump(node)[:160] if isinstance(node, ast.AST) else node))


UNMODELLED_SELF_ATTRS = {"natLocationStr", "locationStr"}      # reading them is pure and outside the model
UNMODELLED_OBJ_ATTRS = {"_pyroInstancing"}                     # instancing mode: not part of the registry state
ERRS = {"TypeError": "typeError", "ValueError": "valueError", "DaemonError": "daemonError", "AttributeError": "attributeError"}


class V:
    """a translated expression"""
    def __init__(self, text, kind, sub="any", pre=None):
        self.text, self.kind, self.sub, self.pre = text, kind, sub, pre     # kind: val | bool | opaque | self


def conj(a, b):
    if a is None: return b
    if b is None: return a
    return "(%s && %s)" % (a, b)


class Env:
    def __init__(self, vars=None, facts=None):
        self.vars = dict(vars or {})          # python name -> V
        self.facts = set(facts or ())         # (fact, python name): str | wref | cls | this

    def copy(self):
        return Env(self.vars, self.facts)

    def with_facts(self, fs):
        e = self.copy(); e.facts |= set(fs); return e

    def bind(self, name, v):
        e = self.copy(); e.vars[name] = v
        e.facts = {f for f in e.facts if f[1] != name}
        return e


class Tr:
    def __init__(self, server, core):
        self.server, self.core = server, core
        self.defs = []            # (lean name, text) in dependency order
        self.done = {}            # (qualname, pure) -> (lean name, params)
        self.notes = []
        self.finalizer = None
        self.counter = None

    # ---- names ------------------------------------------------------------------------------------------------
    def resolve(self, node):
        """value of a (dotted) global name in the real module, or raise KeyError"""
        if isinstance(node, ast.Name):
            g = vars(self.server)
            if node.id in g: return g[node.id]
            import builtins
            if hasattr(builtins, node.id): return getattr(builtins, node.id)
            raise KeyError(node.id)
        if isinstance(node, ast.Attribute):
            return getattr(self.resolve(node.value), node.attr)
        raise KeyError("?")

    def is_global(self, node, obj):
        try:
            return self.resolve(node) is obj
        except (KeyError, AttributeError):
            return False

    def const_str(self, s, node):
        if s == "": return V("Val.emptyStr", "val", "id")
        if s == self.core.DAEMON_NAME: return V("(Val.str Id.daemon)", "val", "id")
        U(node, "string constant %r has no counterpart in the model" % s)

    def fresh(self, p):
        self.counter[p] += 1
        return "%s%d" % (p, self.counter[p] - 1)

    def is_tbl(self, e, env):
        return isinstance(e, ast.Attribute) and e.attr == "objectsById" and self.selfish(e.value, env)

    def selfish(self, e, env):
        """the expression denotes the daemon itself"""
        if isinstance(e, ast.Name) and e.id in env.vars:
            v = env.vars[e.id]
            return v.kind == "self" or (v.kind == "val" and ("this", e.id) in env.facts)
        if isinstance(e, ast.Attribute) and e.attr == "daemon" and isinstance(e.value, ast.Name) \
                and e.value.id in env.vars and env.vars[e.value.id].kind == "dobjself":
            return True
        return False

    # ---- expressions ------------------------------------------------------------------------------------------
    def ex(self, e, env, s):
        if isinstance(e, ast.Constant):
            if e.value is None: return V("Val.none", "val", "id")
            if e.value is True: return V("true", "bool")
            if e.value is False: return V("false", "bool")
            if isinstance(e.value, str): return self.const_str(e.value, e)
            U(e, "constant")
        if isinstance(e, ast.Name):
            if e.id in env.vars:
                v = env.vars[e.id]
                if v.kind == "self": return V("Val.this", "val", "dm")
                if v.kind == "dobjself": U(e, "DaemonObject self as a value")
                if v.kind == "val" and ("str", e.id) in env.facts: return V(v.text, "val", "id")
                return v
            try:
                g = self.resolve(e)
            except KeyError:
                U(e, "free name")
            if isinstance(g, str): return self.const_str(g, e)
            U(e, "global that is not a string constant")
        if isinstance(e, ast.Attribute):
            try:
                g = self.resolve(e)
                if isinstance(g, str): return self.const_str(g, e)
            except (KeyError, AttributeError):
                pass
            if isinstance(e.value, ast.Name) and e.value.id in env.vars:
                b = env.vars[e.value.id]
                if b.kind == "self" and e.attr in UNMODELLED_SELF_ATTRS:
                    return V(None, "opaque")
                if b.kind == "val" and e.attr == "_pyroId":
                    return V("(idAttr %s %s)" % (s, b.text), "val", "id", "(hasIdAttr %s %s)" % (s, b.text))
            U(e, "attribute")
        if isinstance(e, ast.Subscript):
            if self.is_tbl(e.value, env):
                k = self.val(e.slice, env, s)
                return V("(tblGet %s %s)" % (s, k.text), "val", "any", conj(k.pre, "(tblHas %s %s)" % (s, k.text)))
            U(e, "subscript")
        if isinstance(e, ast.BinOp):
            # "obj_" + uuid.uuid4().hex
            import uuid
            if isinstance(e.op, ast.Add) and isinstance(e.left, ast.Constant) and isinstance(e.left.value, str) and e.left.value \
                    and isinstance(e.right, ast.Attribute) and e.right.attr == "hex" and isinstance(e.right.value, ast.Call) \
                    and not e.right.value.args and not e.right.value.keywords and self.is_global(e.right.value.func, uuid.uuid4):
                return V("(freshId %s)" % s, "val", "id")
            U(e, "binary operator")
        if isinstance(e, ast.IfExp):
            t = self.test(e.test, env, s)
            a = self.ex(e.body, env.with_facts(t["tf"]), s)
            b = self.ex(e.orelse, env.with_facts(t["ff"]), s)
            if a.kind == "opaque" or b.kind == "opaque":
                if t["text"] is not None and t["pre"] is not None: U(e, "opaque conditional with a partial test")
                if {a.kind, b.kind} <= {"opaque", "val"} and a.pre is None and b.pre is None: return V(None, "opaque")
                U(e, "conditional mixing opaque and modelled values")
            if t["text"] is None: U(e, "modelled conditional on an opaque test")
            if a.kind != b.kind: U(e, "conditional of different kinds")
            pre = t["pre"]
            if a.pre is not None or b.pre is not None:
                pre = conj(pre, "(if %s then %s else %s)" % (t["text"], a.pre or "true", b.pre or "true"))
            return V("(if %s then %s else %s)" % (t["text"], a.text, b.text), a.kind, a.sub if a.sub == b.sub else "any", pre)
        if isinstance(e, (ast.BoolOp, ast.UnaryOp, ast.Compare)):
            if isinstance(e, ast.BoolOp):
                vs = [self.try_opaque(x, env, s) for x in e.values]
                if all(vs): return V(None, "opaque")
            t = self.test(e, env, s)
            if t["text"] is None: return V(None, "opaque")
            return V(t["text"], "bool", pre=t["pre"])
        if isinstance(e, ast.Call):
            return self.call(e, env, s)
        U(e, "expression")

    def try_opaque(self, e, env, s):
        try:
            return self.ex(e, env, s).kind == "opaque"
        except Untranslatable:
            return False

    def val(self, e, env, s):
        v = self.ex(e, env, s)
        if v.kind != "val": U(e, "a modelled value is needed here, got %s" % v.kind)
        return v

    def call(self, e, env, s):
        f, args = e.func, e.args
        if e.keywords: U(e, "keyword arguments")
        if isinstance(f, ast.Name) and f.id in env.vars:
            # r() for a weak reference
            if not args and ("wref", f.id) in env.facts:
                return V("(wrefCall %s %s)" % (s, env.vars[f.id].text), "val", "any")
            U(e, "call of a local that is not known to be a weak reference")
        if self.is_global(f, getattr) and len(args) == 3 and isinstance(args[1], ast.Constant) \
                and isinstance(args[2], ast.Constant) and args[2].value is None:
            x = self.val(args[0], env, s)
            if args[1].value == "_pyroId": return V("(idAttr %s %s)" % (s, x.text), "val", "id", x.pre)
            if args[1].value == "_pyroDaemon": return V("(dmAttr %s %s)" % (s, x.text), "val", "dm", x.pre)
            U(e, "getattr of an attribute outside the model")
        if self.is_global(f, hasattr) and len(args) == 2 and isinstance(args[1], ast.Constant):
            x = self.val(args[0], env, s)
            if args[1].value == "_pyroId": return V("(hasIdAttr %s %s)" % (s, x.text), "bool", pre=x.pre)
            if args[1].value in UNMODELLED_OBJ_ATTRS and x.pre is None: return V(None, "opaque")
            U(e, "hasattr of an attribute outside the model")
        if self.is_global(f, isinstance) and len(args) == 2:
            x = self.val(args[0], env, s)
            if self.is_global(args[1], str): return V("(isStr %s)" % x.text, "bool", pre=x.pre)
            if self.is_global(args[1], weakref.ref): return V("(isWref %s)" % x.text, "bool", pre=x.pre)
            if isinstance(args[1], ast.Name) and ("cls", args[1].id) in env.facts:
                return V("(instOf %s %s)" % (x.text, env.vars[args[1].id].text), "bool", pre=x.pre)
            U(e, "isinstance with an unknown class")
        if self.is_global(f, inspect.isclass) and len(args) == 1:
            x = self.val(args[0], env, s)
            return V("(isClassV %s)" % x.text, "bool", pre=x.pre)
        if self.is_global(f, weakref.ref) and len(args) == 1:
            x = self.val(args[0], env, s)
            return V("(mkWref %s)" % x.text, "val", "any", x.pre)
        if self.is_global(f, type) and len(args) == 1:
            x = self.val(args[0], env, s)
            if x.pre is None: return V(None, "opaque")
        if self.is_global(f, list) and len(args) == 1:
            a = args[0]
            if isinstance(a, ast.Call) and isinstance(a.func, ast.Attribute) and a.func.attr == "keys" and not a.args and not a.keywords:
                a = a.func.value
            if self.is_tbl(a, env): return V("(tblKeys %s)" % s, "val", "any")
        if isinstance(f, ast.Attribute):
            if f.attr == "get" and self.is_tbl(f.value, env) and len(args) == 1:
                k = self.val(args[0], env, s)
                return V("(tblGet %s %s)" % (s, k.text), "val", "any", k.pre)
            if self.selfish(f.value, env):
                # pure helper of the daemon, translated on demand
                name, params = self.function("Daemon." + f.attr, pure=True)
                xs, pre = self.args_for(e, params, env, s)
                return V("(%s %s %s)" % (name, s, " ".join(xs)) if xs else "(%s %s)" % (name, s), "val", "any", pre)
        U(e, "call")

    def args_for(self, e, params, env, s):
        """params: list of (pyname, kind, default V or None) of the callee without self"""
        if e.keywords: U(e, "keyword arguments")
        if len(e.args) > len(params): U(e, "too many arguments")
        xs, pre = [], None
        for i, (pn, kind, dflt) in enumerate(params):
            if i < len(e.args):
                v = self.ex(e.args[i], env, s)
                if v.kind != kind: U(e, "argument %s: %s where %s is expected" % (pn, v.kind, kind))
                xs.append(v.text); pre = conj(pre, v.pre)
            elif dflt is not None:
                xs.append(dflt.text)
            else:
                U(e, "missing argument %s" % pn)
        return xs, pre

    # ---- tests ------------------------------------------------------------------------------------------------
    def test(self, e, env, s):
        """a condition: dict(text (None = opaque), pre, tf = facts when true, ff = facts when false)"""
        if isinstance(e, ast.UnaryOp) and isinstance(e.op, ast.Not):
            t = self.test(e.operand, env, s)
            return dict(text=None if t["text"] is None else "(!%s)" % t["text"], pre=t["pre"], tf=t["ff"], ff=t["tf"])
        if isinstance(e, ast.BoolOp):
            is_and = isinstance(e.op, ast.And)
            texts, pre, tf, ff, guard = [], None, set(), set(), None
            cur = env
            for x in e.values:
                t = self.test(x, cur, s)
                if t["text"] is None: U(e, "opaque operand in a modelled and/or")
                if t["pre"] is not None:
                    if guard is None: pre = conj(pre, t["pre"])
                    else: pre = conj(pre, ("(!%s || %s)" if is_and else "(%s || %s)") % (guard, t["pre"]))
                texts.append(t["text"])
                guard = ("(%s)" % (" && " if is_and else " || ").join(texts))
                if is_and:
                    tf |= t["tf"]; cur = cur.with_facts(t["tf"])
                else:
                    ff |= t["ff"]; cur = cur.with_facts(t["ff"])
            return dict(text=guard, pre=pre, tf=tf if is_and else set(), ff=ff if not is_and else set())
        if isinstance(e, ast.Compare):
            if len(e.ops) != 1: U(e, "chained comparison")
            op, l, r = e.ops[0], e.left, e.comparators[0]
            if isinstance(op, (ast.In, ast.NotIn)):
                if not self.is_tbl(r, env): U(e, "membership in something that is not the table")
                k = self.val(l, env, s)
                txt = "(tblHas %s %s)" % (s, k.text)
                return dict(text=txt if isinstance(op, ast.In) else "(!%s)" % txt, pre=k.pre, tf=set(), ff=set())
            a, b = self.val(l, env, s), self.val(r, env, s)
            if isinstance(op, (ast.Is, ast.IsNot)):
                pass        # identity: equality of model values (a weak reference is never its referent)
            elif isinstance(op, (ast.Eq, ast.NotEq)):
                # `==` only between strings / None ("" included): value equality
                lstr = a.sub == "id" or (isinstance(l, ast.Name) and ("str", l.id) in env.facts)
                rstr = b.sub == "id" or (isinstance(r, ast.Name) and ("str", r.id) in env.facts)
                if not (lstr and rstr): U(e, "== between values that are not known to be strings/None")
            else:
                U(e, "comparison operator")
            pos = isinstance(op, (ast.Is, ast.Eq))
            return dict(text=("(%s == %s)" if pos else "(%s != %s)") % (a.text, b.text), pre=conj(a.pre, b.pre), tf=set(), ff=set())
        if isinstance(e, ast.Name) and e.id in env.vars:
            v = env.vars[e.id]
            if v.kind == "bool": return dict(text=v.text, pre=None, tf=set(), ff=set())
            if v.kind == "opaque": return dict(text=None, pre=None, tf=set(), ff=set())
            if v.kind == "val" and v.sub in ("id", "dm"):
                return dict(text="(truthy %s)" % v.text, pre=None, tf={("this", e.id)} if v.sub == "dm" else set(), ff=set())
            U(e, "truth value of an object (depends on its class)")
        v = self.ex(e, env, s)
        if v.kind == "opaque": return dict(text=None, pre=None, tf=set(), ff=set())
        if v.kind == "val" and v.sub in ("id", "dm"):
            return dict(text="(truthy %s)" % v.text, pre=v.pre, tf=set(), ff=set())
        if v.kind != "bool": U(e, "truth value of an object")
        tf = set()
        if isinstance(e, ast.Call) and e.args and isinstance(e.args[0], ast.Name) and e.args[0].id in env.vars:
            n = e.args[0].id
            if self.is_global(e.func, isinstance) and self.is_global(e.args[1], str): tf = {("str", n)}
            elif self.is_global(e.func, isinstance) and self.is_global(e.args[1], weakref.ref): tf = {("wref", n)}
            elif self.is_global(e.func, inspect.isclass): tf = {("cls", n)}
        return dict(text=v.text, pre=v.pre, tf=tf, ff=set())

    # ---- statements -------------------------------------------------------------------------------------------
    def opaque_pure(self, st, env, s):
        """the statement only computes / stores values outside the model and cannot raise -> environment after it, else None"""
        try:
            if isinstance(st, ast.Assign) and len(st.targets) == 1:
                t = st.targets[0]
                if isinstance(t, ast.Name):
                    if self.ex(st.value, env, s).kind == "opaque": return env.bind(t.id, V(None, "opaque"))
                    return None
                if isinstance(t, ast.Attribute) and t.attr in UNMODELLED_OBJ_ATTRS and isinstance(t.value, ast.Name) \
                        and t.value.id in env.vars and env.vars[t.value.id].kind == "val":
                    ast.literal_eval(st.value)
                    return env
                return None
            if isinstance(st, ast.If):
                t = self.test(st.test, env, s)
                if t["pre"] is not None: return None
                outs = []
                for body, fs in ((st.body, t["tf"]), (st.orelse, t["ff"])):
                    e2 = env.with_facts(fs)
                    for x in body:
                        e2 = self.opaque_pure(x, e2, s)
                        if e2 is None: return None
                    outs.append(e2)
                new = {k for e2 in outs for k in e2.vars if k not in env.vars or e2.vars[k] is not env.vars[k]}
                e3 = env
                for k in sorted(new):
                    if not all(k in e2.vars and e2.vars[k].kind == "opaque" for e2 in outs): return None
                    e3 = e3.bind(k, V(None, "opaque"))
                return e3
        except (Untranslatable, ValueError):
            return None
        return None

    def stuck_guard(self, pre, s, body):
        if pre is None: return body
        return "if %s then %s else (%s, R.stuck)" % (pre, body, s)

    def block(self, stmts, env, s, k, pure):
        if not stmts: return k(env, s)
        st, rest = stmts[0], stmts[1:]
        cont = lambda env2, s2: self.block(rest, env2, s2, k, pure)
        cont.trivial = not rest and getattr(k, "trivial", False)
        leaf = (lambda s_, r: r) if pure else (lambda s_, r: "(%s, %s)" % (s_, r))
        if isinstance(st, ast.Expr) and isinstance(st.value, ast.Constant) and isinstance(st.value.value, str):
            return cont(env, s)
        if isinstance(st, ast.Expr) and isinstance(st.value, ast.Call) and isinstance(st.value.func, ast.Attribute) \
                and isinstance(st.value.func.value, ast.Name) and st.value.func.value.id == "log" \
                and st.value.func.value.id not in env.vars:
            return cont(env, s)
        if isinstance(st, ast.Pass):
            return cont(env, s)
        e2 = self.opaque_pure(st, env, s)
        if e2 is not None:
            self.notes.append("dropped (outside the model, cannot raise): " + ast.unparse(st).split("\n")[0])
            return cont(e2, s)
        if isinstance(st, ast.Return):
            if st.value is None:
                return "Val.none" if pure else "(%s, R.ret Val.none)" % s
            v = st.value
            if not pure and isinstance(v, ast.Call):
                if self.is_global(v.func, self.core.URI) and len(v.args) == 1 and not v.keywords:
                    a = v.args[0]
                    if isinstance(a, ast.BinOp) and isinstance(a.op, ast.Mod) and isinstance(a.left, ast.Constant) \
                            and a.left.value == "PYRO:%s@%s" and isinstance(a.right, ast.Tuple) and len(a.right.elts) == 2:
                        x = self.val(a.right.elts[0], env, s)
                        if self.ex(a.right.elts[1], env, s).kind != "opaque": U(st, "location of the URI")
                        return self.stuck_guard(x.pre, s, "retUri %s %s" % (s, x.text))
                    U(st, "URI construction")
                if isinstance(v.func, ast.Attribute) and self.selfish(v.func.value, env):
                    if v.func.attr == "proxyFor" and len(v.args) == 1 and not v.keywords:
                        x = self.val(v.args[0], env, s)
                        return self.stuck_guard(x.pre, s, "retProxyFor %s %s" % (s, x.text))
                    try:
                        name, params = self.function("Daemon." + v.func.attr, pure=True)
                    except Untranslatable:
                        name, params = self.function("Daemon." + v.func.attr, pure=False)
                        xs, pre = self.args_for(v, params, env, s)
                        return self.stuck_guard(pre, s, "%s %s %s" % (name, s, " ".join(xs)))
            x = self.val(v, env, s)
            if pure:
                if x.pre is not None: U(st, "partial expression in a pure helper")
                return x.text
            return self.stuck_guard(x.pre, s, "(%s, R.ret %s)" % (s, x.text))
        if isinstance(st, ast.Raise):
            if pure: U(st, "raise in a pure helper")
            if st.cause is not None or not isinstance(st.exc, ast.Call): U(st, "raise form")
            for a in st.exc.args:
                if not (isinstance(a, ast.Constant) and isinstance(a.value, str)): U(st, "exception argument")
            try:
                cls = self.resolve(st.exc.func)
            except (KeyError, AttributeError):
                U(st, "exception class")
            if not (isinstance(cls, type) and cls.__name__ in ERRS and (cls.__module__ in ("builtins", "Pyro5.errors"))):
                U(st, "exception class outside the model")
            return "(%s, R.raised Err.%s)" % (s, ERRS[cls.__name__])
        if isinstance(st, ast.If):
            test, body, orelse = st.test, st.body, st.orelse
            # normal form: positive test
            while True:
                if isinstance(test, ast.UnaryOp) and isinstance(test.op, ast.Not):
                    test, body, orelse = test.operand, orelse, body
                elif isinstance(test, ast.Compare) and len(test.ops) == 1 and isinstance(test.ops[0], (ast.NotIn, ast.IsNot, ast.NotEq)):
                    pos = {ast.NotIn: ast.In, ast.IsNot: ast.Is, ast.NotEq: ast.Eq}[type(test.ops[0])]()
                    test, body, orelse = ast.Compare(test.left, [pos], test.comparators), orelse, body
                else:
                    break
            t = self.test(test, env, s)
            if t["text"] is None: U(st, "modelled statements under an opaque test")
            header = ""
            trivial = not rest and getattr(k, "trivial", False)
            if _falls(body) and _falls(orelse) and not trivial:
                # join point: the rest of the block becomes a local function of the state and of the variables the branches assign
                assigned = _assigned(body) + [x for x in _assigned(orelse) if x not in _assigned(body)]
                both = _defs(body) & _defs(orelse)
                params = [x for x in assigned if x in both or (x in env.vars and env.vars[x].kind in ("val", "bool"))]
                jn, sj = self.fresh("k"), self.fresh("s")
                seen = {}

                def kcall(env2, s2, params=params, jn=jn, seen=seen):
                    args = []
                    for x in params:
                        v = env2.vars.get(x)
                        if v is None or v.kind not in ("val", "bool"): U(st, "variable %s at a join" % x)
                        if x in seen and seen[x][0] != v.kind: U(st, "variable %s has two kinds at a join" % x)
                        seen[x] = (v.kind, v.sub if x not in seen or seen[x][1] == v.sub else "any")
                        args.append(v.text)
                    return " ".join([jn, s2] + args)
                kcall.trivial = True
                a = self.block(body, env.with_facts(t["tf"]), s, kcall, pure)
                b = self.block(orelse, env.with_facts(t["ff"]), s, kcall, pure)
                jenv = env.copy()
                for x in assigned:
                    jenv.vars.pop(x, None)
                    jenv.facts = {f for f in jenv.facts if f[1] != x}
                ps = []
                for x in params:
                    if x not in seen: continue
                    pn = self.fresh("v")
                    jenv.vars[x] = V(pn, seen[x][0], seen[x][1])
                    ps.append("(%s : %s)" % (pn, "Val" if seen[x][0] == "val" else "Bool"))
                if len(ps) != len(params): U(st, "join that is never reached")
                header = "let %s := fun (%s : State) %s =>\n%s\n" % (jn, sj, " ".join(ps), textwrap.indent(cont(jenv, sj), "  "))
            else:
                a = self.block(body, env.with_facts(t["tf"]), s, cont, pure)
                b = self.block(orelse, env.with_facts(t["ff"]), s, cont, pure)
            txt = header + "if %s then\n%s\nelse\n%s" % (t["text"], textwrap.indent(a, "  "), textwrap.indent(b, "  "))
            if t["pre"] is not None:
                if pure: U(st, "partial test in a pure helper")
                txt = "if %s then\n%s\nelse (%s, R.stuck)" % (t["pre"], textwrap.indent(txt, "  "), s)
            return txt
        if isinstance(st, ast.Assign) and len(st.targets) == 1:
            tg = st.targets[0]
            if isinstance(tg, ast.Name):
                v = self.ex(st.value, env, s)
                if v.kind not in ("val", "bool"): U(st, "assignment of %s" % v.kind)
                if v.pre is not None and pure: U(st, "partial expression in a pure helper")
                n = self.fresh("v")
                txt = "let %s := %s\n%s" % (n, v.text, cont(env.bind(tg.id, V(n, v.kind, v.sub)), s))
                return self.stuck_guard(v.pre, s, "(\n%s)" % textwrap.indent(txt, "  ")) if v.pre else txt
            if pure: U(st, "effect in a pure helper")
            if isinstance(tg, ast.Attribute) and isinstance(tg.value, ast.Name) and tg.value.id in env.vars \
                    and env.vars[tg.value.id].kind == "val" and tg.attr in ("_pyroId", "_pyroDaemon"):
                x = env.vars[tg.value.id]
                v = self.val(st.value, env, s)
                prim = "setIdAttr" if tg.attr == "_pyroId" else "setDmAttr"
                return self.effect("%s %s %s %s" % (prim, s, x.text, v.text), v.pre, env, s, cont)
            if isinstance(tg, ast.Subscript) and self.is_tbl(tg.value, env):
                kx = self.val(tg.slice, env, s)
                v = self.val(st.value, env, s)
                return self.effect("tblSet %s %s %s" % (s, kx.text, v.text), conj(kx.pre, v.pre), env, s, cont)
            U(st, "assignment target")
        if pure: U(st, "statement in a pure helper")
        if isinstance(st, ast.Delete) and len(st.targets) == 1:
            tg = st.targets[0]
            if isinstance(tg, ast.Subscript) and self.is_tbl(tg.value, env):
                kx = self.val(tg.slice, env, s)
                return self.effect("tblDel %s %s" % (s, kx.text), kx.pre, env, s, cont)
            if isinstance(tg, ast.Attribute) and isinstance(tg.value, ast.Name) and tg.value.id in env.vars \
                    and env.vars[tg.value.id].kind == "val" and tg.attr in ("_pyroId", "_pyroDaemon"):
                prim = "delIdAttr" if tg.attr == "_pyroId" else "delDmAttr"
                return self.effect("%s %s %s" % (prim, s, env.vars[tg.value.id].text), None, env, s, cont)
            U(st, "del target")
        if isinstance(st, ast.For):
            return self.hooks_loop(st, env, s, cont)
        if isinstance(st, ast.Expr) and isinstance(st.value, ast.Call) and self.is_global(st.value.func, weakref.finalize):
            c = st.value
            if c.keywords or len(c.args) != 4: U(st, "finalize arguments")
            x = self.val(c.args[0], env, s)
            cb = c.args[1]
            if not (isinstance(cb, ast.Attribute) and self.selfish(cb.value, env)): U(st, "finalizer callback")
            name, params = self.function("Daemon." + cb.attr, pure=False, lean_name="finalizerSrc")
            if len(params) != 2: U(st, "finalizer parameters")
            self.finalizer = cb.attr
            a1, a2 = self.val(c.args[2], env, s), self.val(c.args[3], env, s)
            return self.effect("addFin %s %s %s %s" % (s, x.text, a1.text, a2.text), conj(x.pre, conj(a1.pre, a2.pre)), env, s, cont)
        U(st, "statement")

    def effect(self, prim, pre, env, s, cont):
        s2 = self.fresh("s")
        txt = "Eff.bind (%s) %s (fun %s =>\n%s)" % (prim, s, s2, textwrap.indent(cont(env, s2), "  "))
        return self.stuck_guard(pre, s, "(\n%s)" % textwrap.indent(txt, "  ")) if pre else txt

    def hooks_loop(self, st, env, s, cont):
        """for <ser> in serializers.serializers.values(): <ser>.register_type_replacement(<x | type(x) | opaque>, _pyro_obj_to_auto_proxy)"""
        it = st.iter
        ok = isinstance(it, ast.Call) and isinstance(it.func, ast.Attribute) and it.func.attr == "values" and not it.args \
            and self.is_global(it.func.value, self.server.serializers.serializers) and isinstance(st.target, ast.Name) and not st.orelse
        if not ok: U(st, "loop")
        lv = st.target.id
        subjects = set()

        def scan(stmts, env):
            for x in stmts:
                # a local of the loop body that only holds a value outside the model (the type whose hook is replaced);
                # it is not exported to the code after the loop (a use there is refused as a free name)
                e2 = self.opaque_pure(x, env, s)
                if e2 is not None:
                    env = e2
                    continue
                if isinstance(x, ast.If):
                    t = self.test(x.test, env, s)
                    if t["pre"] is not None: U(x, "partial test in the hook loop")
                    scan(x.body, env.with_facts(t["tf"])); scan(x.orelse, env.with_facts(t["ff"]))
                    continue
                c = x.value if isinstance(x, ast.Expr) else None
                if not (isinstance(c, ast.Call) and isinstance(c.func, ast.Attribute) and c.func.attr == "register_type_replacement"
                        and isinstance(c.func.value, ast.Name) and c.func.value.id == lv and len(c.args) == 2 and not c.keywords
                        and self.is_global(c.args[1], self.server._pyro_obj_to_auto_proxy)):
                    U(x, "statement in the hook loop")
                a = c.args[0]
                if isinstance(a, ast.Call) and self.is_global(a.func, type) and len(a.args) == 1: a = a.args[0]
                if isinstance(a, ast.Name) and a.id in env.vars and env.vars[a.id].kind == "val": subjects.add(env.vars[a.id].text)
                elif isinstance(a, ast.Name) and a.id in env.vars and env.vars[a.id].kind == "opaque": pass
                else: U(x, "type whose hook is replaced")
        scan(st.body, env)
        subj = sorted(subjects)[0] if len(subjects) == 1 else None
        if subj is None:
            vals = sorted(v.text for v in env.vars.values() if v.kind == "val" and v.text.startswith("a"))
            subj = vals[0] if vals else U(st, "hook loop without subject")
        return self.effect("installHooks %s %s" % (s, subj), None, env, s, cont)

    # ---- functions --------------------------------------------------------------------------------------------
    def function(self, qualname, pure, lean_name=None, spec=None):
        key = (qualname, pure)
        if key in self.done:
            return self.done[key]
        obj = self.server
        for part in qualname.split("."):
            if not hasattr(obj, part): raise Untranslatable("no function %s" % qualname)
            obj = getattr(obj, part)
        try:
            src = textwrap.dedent(inspect.getsource(obj))
        except (OSError, TypeError) as x:
            raise Untranslatable("no source for %s: %s" % (qualname, x))
        fdef = ast.parse(src).body[0]
        if not isinstance(fdef, ast.FunctionDef) or fdef.decorator_list: raise Untranslatable("%s: not a plain function" % qualname)
        a = fdef.args
        if a.vararg or a.kwarg or a.kwonlyargs or a.posonlyargs: raise Untranslatable("%s: parameter form" % qualname)
        saved = self.counter
        self.counter = {"v": 0, "s": 1, "a": 0, "k": 0}
        env = Env()
        names = [x.arg for x in a.args]
        method = "." in qualname
        params, lparams = [], []
        dfl = [None] * (len(names) - len(a.defaults)) + list(a.defaults)
        for i, (n, d) in enumerate(zip(names, dfl)):
            if method and i == 0:
                env = env.bind(n, V(None, "dobjself" if qualname.startswith("DaemonObject.") else "self"))
                continue
            kind, sub = "val", "any"
            if spec and n in spec: kind, sub = spec[n]
            dv = None
            if d is not None:
                if isinstance(d, ast.Constant) and isinstance(d.value, bool): kind, dv = "bool", V("true" if d.value else "false", "bool")
                elif isinstance(d, ast.Constant) and d.value is None: dv = V("Val.none", "val")
                else: raise Untranslatable("%s: default of %s" % (qualname, n))
            ln = self.fresh("a")
            env = env.bind(n, V(ln, kind, sub))
            params.append((n, kind, dv))
            lparams.append("(%s : %s)" % (ln, "Val" if kind == "val" else "Bool"))
        name = lean_name or ("h_" + qualname.replace(".", "_") + ("_pure" if pure else ""))
        self.done[key] = (name, params)
        end = (lambda env2, s2: "Val.none") if pure else (lambda env2, s2: "(%s, R.ret Val.none)" % s2)
        end.trivial = True
        try:
            body = self.block(fdef.body, env, "s0", end, pure)
        except Untranslatable:
            del self.done[key]
            self.counter = saved
            raise
        self.counter = saved
        attr = "" if lean_name else "@[simp] "
        self.defs.append((name, "/-- transcription of `%s` (%s) -/\n%sdef %s (s0 : State) %s : %s :=\n%s\n" % (
            qualname, "pure" if pure else "state and result", attr, name, " ".join(lparams), "Val" if pure else "Out",
            textwrap.indent(body, "  "))))
        return name, params


def _falls(stmts):
    """the block can end without return / raise"""
    for st in stmts:
        if isinstance(st, (ast.Return, ast.Raise)): return False
        if isinstance(st, ast.If) and not _falls(st.body) and not _falls(st.orelse): return False
    return True


def _assigned(stmts):
    out = []
    for st in stmts:
        for n in ast.walk(st):
            if isinstance(n, ast.Assign):
                for tg in n.targets:
                    if isinstance(tg, ast.Name) and tg.id not in out: out.append(tg.id)
    return out


def _defs(stmts):
    """names assigned on every path through the block that falls through (all names, for a block that never does)"""
    out = set()
    for st in stmts:
        if isinstance(st, ast.Assign):
            out |= {tg.id for tg in st.targets if isinstance(tg, ast.Name)}
        elif isinstance(st, ast.If):
            fa, fb = _falls(st.body), _falls(st.orelse)
            if fa and fb: out |= _defs(st.body) & _defs(st.orelse)
            elif fa: out |= _defs(st.body)
            elif fb: out |= _defs(st.orelse)
    return out


TOP = [
    # qualname, lean name, pure, parameter kinds
    ("Daemon._registered", "registeredSrc", True, {"objectId": ("val", "any")}),
    ("Daemon.uriFor", "uriForSrc", False, {"objectOrId": ("val", "any")}),
    ("Daemon.register", "registerSrc", False, {"obj_or_class": ("val", "any"), "objectId": ("val", "id"), "force": ("bool", None), "weak": ("bool", None)}),
    ("Daemon.unregister", "unregisterSrc", False, {"objectOrId": ("val", "any")}),
    ("_pyro_obj_to_auto_proxy", "autoProxySrc", False, {"obj": ("val", "any")}),
    ("DaemonObject.registered", "registeredIdsSrc", False, {}),
]


def transcribe(server, core):
    """-> (Lean source of PyroModel/Gen/C16Src.lean, notes)"""
    tr = Tr(server, core)
    for qn, ln, pure, spec in TOP:
        # parameters may be renamed: the kinds are given by position
        tr.function(qn, pure, lean_name=ln, spec=_by_position(server, qn, spec))
    if tr.finalizer is None:
        raise Untranslatable("Daemon.register arms no finalizer through weakref.finalize")
    out = ["/-! transcription of the registry functions, GENERATED by harness/props/c16_tr.py from Pyro5/server.py -/",
           "namespace Pyro.Gen.C16Src", "open Pyro.Registry Pyro.Registry.Src", "set_option linter.unusedVariables false", ""]
    for _, txt in tr.defs:
        out.append(txt)
    out.append("end Pyro.Gen.C16Src")
    return "\n".join(out) + "\n", tr.notes


POSITIONS = {"Daemon._registered": ["objectId"], "Daemon.uriFor": ["objectOrId"],
             "Daemon.register": ["obj_or_class", "objectId", "force", "weak"], "Daemon.unregister": ["objectOrId"],
             "_pyro_obj_to_auto_proxy": ["obj"], "DaemonObject.registered": []}


def _by_position(server, qn, spec):
    obj = server
    for part in qn.split("."):
        obj = getattr(obj, part, None)
        if obj is None: raise Untranslatable("no function %s" % qn)
    names = list(inspect.signature(obj).parameters)
    if "." in qn: names = names[1:]
    out = {}
    for i, canonical in enumerate(POSITIONS[qn]):
        if i >= len(names): raise Untranslatable("%s: parameter %d missing" % (qn, i))
        out[names[i]] = spec[canonical]
    return out
