"""
C01, datetime values (kept out of the Lean value model: local-time float timestamps are runtime arithmetic).
Real-code oracle only: in a process whose local zone is NOT UTC (fixed offset, no DST) the serializers' mapping of
datetime values is the same for arguments and results and changes nothing when applied twice; where a serializer
delivers a datetime at all (msgpack), it delivers the value that was sent.
"""
import datetime
import os
import time

import common


def run(ctx):
    common.repo_on_path()
    from Pyro5 import serializers
    rng = ctx.sub_rng("tz")
    old = os.environ.get("TZ")
    try:
        for tz in ("IST-5:30", "XYZ+9", "UTC"):
            os.environ["TZ"] = tz
            time.tzset()
            for _ in range(6):
                dt = datetime.datetime(rng.randint(1990, 2035), rng.randint(1, 12), rng.randint(1, 28),
                                       rng.randint(0, 23), rng.randint(0, 59), rng.randint(0, 59))
                for name, ser in serializers.serializers.items():
                    try:
                        res = ser.loads(ser.dumps(dt))
                        arg = ser.loadsCall(ser.dumpsCall("o", "m", (dt,), {"k": dt}))
                        again = ser.loads(ser.dumps(res))
                    except Exception as x:
                        continue        # a serializer may not support datetime at all
                    ctx.evaluations += 1
                    case = {"tz": tz, "datetime": dt.isoformat(), "serializer": name}
                    if arg[2][0] != res or arg[3]["k"] != res:
                        ctx.fail("datetime-asymmetric:" + name, "%s in zone %s: datetime %s arrives as %r as a result but %r as an argument"
                                 % (name, tz, dt, res, arg[2][0]), case)
                    elif again != res:
                        ctx.fail("datetime-not-idempotent:" + name, "%s in zone %s: datetime %s maps to %r and that maps to %r"
                                 % (name, tz, dt, res, again), case)
                    elif isinstance(res, datetime.datetime) and res != dt:
                        ctx.fail("datetime-changed:" + name, "%s in zone %s: datetime %s arrives as %s" % (name, tz, dt, res), case)
    finally:
        if old is None:
            os.environ.pop("TZ", None)
        else:
            os.environ["TZ"] = old
        time.tzset()
