"""C10 — a remote iterator delivers exactly the server's items, once, in order."""
import ast
import json
import os

import common

ID = "C10"
LEAN_MODEL_TARGETS = ["drv_c10"]
LEAN_PROOF_TARGETS = ["PyroProps.C10", "PyroProps.C10Src"]
AUDIT_FILES = ["PyroModel/Streams.lean", "PyroModel/StreamsRace.lean", "PyroModel/Lock.lean", "PyroModel/Gen/C10.lean",
               "PyroProofs/Streams.lean", "PyroProofs/StreamsRace.lean", "PyroProofs/Lock.lean", "PyroProps/C10.lean",
               "PyroModel/StreamsSrc.lean", "PyroModel/StreamsSrcRun.lean", "PyroProofs/StreamsSrc.lean", "PyroProps/C10Src.lean"]
THEOREMS = ["Pyro.C10.C10_gen_facts", "Pyro.C10.C10_gen_removal_tolerant", "Pyro.C10.C10_gen_housekeeping_locked",
            "Pyro.C10.C10_gen_environment", "Pyro.C10.C10_gen_expiry_probe", "Pyro.C10.C10_gen_disconnect_probe", "Pyro.C10.C10_prefix", "Pyro.C10.C10_next_exact", "Pyro.C10.C10_end", "Pyro.C10.C10_forgotten",
            "Pyro.C10.C10_forget_conditions", "Pyro.C10.C10_resume", "Pyro.C10.C10_quiescent", "Pyro.C10.C10_expiry_empties",
            "Pyro.C10.C10_client_refines", "Pyro.C10.C10_client_exact", "Pyro.C10.C10_client_close_forgets", "Pyro.C10.C10_client_survives_loss",
            "Pyro.C10.C10_sched_prefix", "Pyro.C10.C10_sched_no_masking", "Pyro.C10.C10_sched_strict_masks",
            "Pyro.C10.C10_sched_cleanup_total", "Pyro.C10.C10_housekeeping_serial", "Pyro.Lock.atomic",
            # the stream functions of server.py transcribed on every run (c10_tr.py -> Gen/C10.lean) = the model, for all inputs
            "Pyro.C10.C10_getNext_translated", "Pyro.C10.C10_closeStream_translated", "Pyro.C10.C10_streamResponse_translated",
            "Pyro.C10.C10_clientDisconnect_translated", "Pyro.C10.C10_housekeeping_translated", "Pyro.C10.C10_stepSrc_translated",
            "Pyro.C10.C10_source_exec", "Pyro.C10.C10_source_prefix", "Pyro.C10.C10_source_next_exact",
            "Pyro.C10.C10_source_forget_conditions", "Pyro.C10.C10_source_shutting_down", "Pyro.Streams.foldl_applyUpd"]
SUITES = ["histories", "interleavings", "transcription"]
RULE = ("(a) histories of <= 45 operations over 1-3 proxies / up to 6 streams on the REAL Daemon, DaemonObject and "
        "_StreamResultIterator (virtual clock, fake connections): call returning an iterator (custom iterator class, generator, "
        "list iterator; empty, long, raising at position k) or a plain value, next/close through the client iterator, unrelated "
        "proxy calls (sequence divergence, 16-bit wrap), proxy release/reconnect, raw daemon-object calls from foreign connections, "
        "housekeeping, clock advances; settings streaming on/off x lifetime x linger (<=0 and >0) x a daemon subclass whose "
        "clientDisconnect hook raises (disconnects made the way the transport servers make them: errors only logged); generated from VERIF_SEED; "
        "a history is non-trivial when >= 2 items were delivered and >= 1 stream was forgotten for a reason other than exhaustion, "
        "or >= 2 streams were open at once; distinct = distinct (settings, op list).  (b) small sets of concurrent daemon-object / "
        "housekeeper / disconnect programs run with REAL threads on the real Daemon under the deterministic scheduler: every schedule "
        "up to a preemption bound at the granularity of each access of the stream table and each `next()` of the iterator; "
        "the set of outcomes is compared with the set the fine-grained Lean model produces over ALL interleavings; "
        "non-trivial = a schedule with >= 2 context switches; distinct = distinct (program set, schedule)")
ASSUMPTIONS = ["uuid4 stream ids are never repeated (model: a counter)",
               "time.time() is replaced by the harness's virtual clock and is > 0 in the property oracle (real clocks are never 0)",
               "a single dict operation and a single next() of one iterator are atomic (GIL); two threads never call next() on the same stream at once",
               "the daemon is not shutting down (housekeeping returns early then)",
               "iterator exceptions are subclasses of Exception (BaseException escapes `except Exception` and is outside the alphabet)"]
TRUSTED = ["harness/props/c10_wire.py: real multiplex server (requestLoop, or an application loop calling daemon.events) + real proxies over a unix socket, synchronised by completed round trips",
           "harness/sched.py (deterministic scheduler, instrumented stream-table dict)",
           "the fake proxy of harness/props/c10.py stands for Proxy._pyroInvoke (connect on demand, 16-bit sequence number, forwards to the daemon object)"]


# ----------------------------------------------------------------------------------------------------
# A: extractor
# ----------------------------------------------------------------------------------------------------
def _find_func(tree, cls, name):
    for n in tree.body:
        if isinstance(n, ast.ClassDef) and n.name == cls:
            for f in n.body:
                if isinstance(f, ast.FunctionDef) and f.name == name:
                    return f
    raise ValueError("source shape: %s.%s not found" % (cls, name))


def _is_table(node):
    return isinstance(node, ast.Attribute) and node.attr == "streaming_responses"


def _removals(fn):
    """how the function removes keys from the stream table, in source order"""
    out = []
    for node in ast.walk(fn):
        if isinstance(node, ast.Delete):
            for t in node.targets:
                if isinstance(t, ast.Subscript) and _is_table(t.value):
                    out.append((node.lineno, node.col_offset, "del"))
        elif isinstance(node, ast.Call) and isinstance(node.func, ast.Attribute) and node.func.attr == "pop" \
                and _is_table(node.func.value):
            out.append((node.lineno, node.col_offset, "pop-default" if len(node.args) + len(node.keywords) >= 2 else "pop"))
    return [k for _, _, k in sorted(out)]


def _lock_shape(fn, lockname):
    inside = outside = 0

    def visit(node, locked):
        nonlocal inside, outside
        if isinstance(node, ast.With):
            is_lock = any(isinstance(i.context_expr, ast.Attribute) and i.context_expr.attr == lockname for i in node.items)
            for st in node.body:
                visit(st, locked or is_lock)
            return
        if _is_table(node):
            if locked:
                inside += 1
            else:
                outside += 1
        for ch in ast.iter_child_nodes(node):
            visit(ch, locked)
    for st in fn.body:
        visit(st, False)
    return inside, outside


def extract():
    """facts by probing the real code (c10_probe.py); nothing depends on the spelling of the source"""
    from props import c10_probe, c10_tr
    facts = c10_probe.extract()
    # the five stream functions of server.py, transcribed from the source as it is now (c10_tr.py: sound by refusal)
    try:
        src = c10_tr.lean_defs()
    except c10_tr.Untranslatable:
        # the tie is broken (the runner reports the extractor obligation and searches with the oracle).  So that model,
        # driver and proofs still build and the correspondence run can look for a failing input, Gen/C10.lean gets the
        # current facts plus the transcription of the tree the framework was built for (committed copy).
        fb = open(os.path.join(os.path.dirname(os.path.abspath(__file__)), "c10_src_fallback.lean.txt")).read()
        common.write_if_changed(os.path.join(common.LEAN, "PyroModel", "Gen", "C10.lean"),
                                "import PyroModel.StreamsSrc\n" + facts + fb)
        raise
    return "import PyroModel.StreamsSrc\n" + facts + src


def _seq_mask():
    from props import c10_probe
    return c10_probe.facts()["mask"] or 0xffff


# ----------------------------------------------------------------------------------------------------
# the environment of the real code: virtual clock, fake connections, scripted iterators, fake proxy
# ----------------------------------------------------------------------------------------------------
class VClock:
    """stands for the `time` module inside Pyro5.server"""

    def __init__(self, real, now=0):
        self._real = real
        self.now = now

    def time(self):
        return self.now

    def sleep(self, d):
        pass

    def __getattr__(self, name):
        return getattr(self._real, name)


import uuid as _uuid
FIXED_CORR = _uuid.UUID(int=0x5eed5eed5eed5eed5eed5eed5eed5eed)


class FakeConn:
    def __init__(self, idx):
        self.idx = idx

    def __repr__(self):
        return "<conn %d>" % self.idx


class SrcError(Exception):
    """what a scripted iterator raises at a `raises` position"""

    def __init__(self, code):
        super().__init__(code)
        self.code = code


class ScriptIter:
    """a custom iterator class: each next() performs the next script item"""

    def __init__(self, items, hook=None):
        self.items = items
        self.pos = 0
        self.hook = hook

    def __iter__(self):
        return self

    def __next__(self):
        if self.hook:
            self.hook()
        if self.pos >= len(self.items):
            raise StopIteration
        k, v = self.items[self.pos]
        self.pos += 1
        if k == "v":
            return v
        raise SrcError(v)

    def remaining(self):
        return self.items[self.pos:]


class GenSource:
    """a generator (script must have its `raises`, if any, last)"""

    def __init__(self, items):
        self.items = items
        self.pos = 0
        self.finished = False
        self.it = self._gen()

    def _gen(self):
        for k, v in self.items:
            self.pos += 1
            if k == "v":
                yield v
            else:
                self.finished = True
                raise SrcError(v)

    def remaining(self):
        return [] if self.finished else self.items[self.pos:]


class ListSource:
    def __init__(self, items):
        self.items = items
        self.it = iter([v for _, v in items])

    def remaining(self):
        import operator
        n = operator.length_hint(self.it)
        return self.items[len(self.items) - n:]


def make_source(items, kind):
    wf = all(k == "v" for k, _ in items[:-1])
    if kind == "gen" and wf:
        s = GenSource(items)
        return s, s.it
    if kind == "list" and all(k == "v" for k, _ in items):
        s = ListSource(items)
        return s, s.it
    s = ScriptIter(items)
    return s, s


class World:
    """one real Daemon (its stream table is cleared per history) with fake connections on a virtual clock"""

    def __init__(self, daemon, clock, mask):
        from Pyro5 import core
        self.daemon = daemon
        self.dobj = daemon.objectsById[core.DAEMON_NAME]
        self.clock = clock
        self.mask = mask
        self.reset(0)

    def reset(self, t0):
        self.corr = "fresh"
        self.daemon.hook_fails = False
        self.daemon.streaming_responses = {}
        self.clock.now = t0
        self.conns = {}
        self.next_conn = 0
        self.stream_ids = []      # uuid strings in creation order
        self.sources = []         # per stream: (script items, source object)
        self.server_events = 0

    def conn(self, k):
        if k not in self.conns:
            self.conns[k] = FakeConn(k)
        return self.conns[k]

    def new_conn(self):
        c = self.conn(self.next_conn)
        self.next_conn += 1
        return c

    def sid(self, k):
        return self.stream_ids[k] if k < len(self.stream_ids) else "no-such-stream-%d" % k

    # -- server operations (each is one call into the real code) -------------------------------------
    def open(self, conn, data):
        """daemon._streamResponse(data, conn) as handleRequest calls it (server.py 460 / 486)"""
        import uuid
        from Pyro5.server import current_context
        self.server_events += 1
        # handleRequest (server.py 404-407): the correlation id of the request comes from the wire if the client sent one
        # (client-controlled: here the SAME id on every request), otherwise it is a fresh uuid4
        current_context.correlation_id = FIXED_CORR if self.corr == "fixed" else uuid.uuid4()
        current_context.client = conn
        if data is None:
            return self.daemon._streamResponse([1, 2, 3] if conn.idx % 2 else {"a": 1}.keys(), conn)
        items, kind = data
        src, it = make_source(items, kind)
        is_stream, sid = self.daemon._streamResponse(it, conn)
        if is_stream and sid:
            self.stream_ids.append(sid)
            self.sources.append((items, src))
        return is_stream, sid

    def next(self, sid, conn):
        from Pyro5.server import current_context
        self.server_events += 1
        current_context.client = conn
        return self.dobj.get_next_stream_item(sid)

    def close(self, sid):
        self.server_events += 1
        return self.dobj.close_stream(sid)

    def disconnect(self, conn):
        """as both transport servers call it (svr_threads.py 59-63, svr_multiplex.py 87-90): errors are only logged"""
        self.server_events += 1
        try:
            self.daemon._clientDisconnect(conn)
            return "ok"
        except Exception:
            return "hookerr"

    def housekeeping(self):
        self.server_events += 1
        return self.daemon._housekeeping()

    def table(self):
        out = []
        for sid, (client, ts, lts, stream) in self.daemon.streaming_responses.items():
            k = self.stream_ids.index(sid)
            out.append((k, None if client is None else client.idx, ts, lts, self.sources[k][1].remaining()))
        return out


class FakeProxy:
    """what _StreamResultIterator needs of a Proxy: _pyroConnection, _pyroSeq, _pyroInvoke, __copy__, with-protocol.
    Mirrors Proxy._pyroInvoke (client.py 229-247): connect when unconnected, `_pyroSeq = (_pyroSeq + 1) & mask`."""

    def __init__(self, world, seq0=0):
        self.world = world
        self._pyroConnection = None
        self._pyroSeq = seq0
        self._pyroMaxRetries = 0       # Proxy.__init__: config.MAX_RETRIES (default 0); c10_retry.py varies it
        self.lose_next = False

    def _prepare(self):
        if self._pyroConnection is None:
            self._pyroConnection = self.world.new_conn()
        self._pyroSeq = (self._pyroSeq + 1) & self.world.mask
        if self.lose_next:
            # the connection breaks while the request is under way (client.py 278-286): released, error re-raised
            from Pyro5 import errors
            self.lose_next = False
            self._pyroRelease()
            raise errors.ConnectionClosedError("connection lost")
        return self._pyroConnection

    def _pyroInvoke(self, methodname, vargs, kwargs, flags=0, objectId=None):
        conn = self._prepare()
        if methodname == "get_next_stream_item":
            return self.world.next(vargs[0], conn)
        if methodname == "close_stream":
            return self.world.close(vargs[0])
        raise AssertionError(methodname)

    def call(self, data):
        """a remote method whose result is `data`: server.py 486-494 + client.py 269-273"""
        from Pyro5 import client, errors
        conn = self._prepare()
        is_stream, sid = self.world.open(conn, data)
        if is_stream:
            if not sid:
                raise errors.ProtocolError("result of call is an iterator, but the server is not configured to allow streaming")
            return client._StreamResultIterator(sid, self)
        return sid

    def ping(self):
        self._prepare()

    def _pyroRelease(self):
        if self._pyroConnection is not None:
            c, self._pyroConnection = self._pyroConnection, None
            self.world.disconnect(c)

    def __copy__(self):
        return FakeProxy(self.world, 0)

    def __enter__(self):
        return self

    def __exit__(self, *a):
        self._pyroRelease()


def make_world():
    """patches Pyro5.server.time; returns (world, restore)"""
    common.repo_on_path()
    from Pyro5 import server, config
    old_time = server.time
    old_type = config.SERVERTYPE
    clock = VClock(old_time)
    server.time = clock
    config.SERVERTYPE = "multiplex"     # no worker threads: the transport is never used
    class HookDaemon(server.Daemon):
        """an application daemon whose user hook fails when told to (e.g. per-connection session cleanup hitting a KeyError)"""
        hook_fails = False

        def clientDisconnect(self, conn):
            if self.hook_fails:
                raise KeyError(conn)
    try:
        daemon = HookDaemon(host="localhost", port=0)
    except BaseException:
        server.time = old_time
        raise
    finally:
        config.SERVERTYPE = old_type
    world = World(daemon, clock, _seq_mask())
    saved = (config.ITER_STREAMING, config.ITER_STREAM_LIFETIME, config.ITER_STREAM_LINGER)

    saved_corr = server.current_context.correlation_id

    def restore():
        server.current_context.correlation_id = saved_corr
        config.ITER_STREAMING, config.ITER_STREAM_LIFETIME, config.ITER_STREAM_LINGER = saved
        server.time = old_time
        world.daemon.streaming_responses = {}
        try:
            daemon.close()
        except Exception:
            pass
    return world, restore


# ----------------------------------------------------------------------------------------------------
# histories: generator, execution on the real code, reference bookkeeping of the property
# ----------------------------------------------------------------------------------------------------
def gen_items(rng):
    r = rng.random()
    if r < 0.12:
        n = 0
    elif r < 0.8:
        n = rng.randint(1, 5)
    else:
        n = rng.randint(6, 30)
    items = [("v", rng.randint(0, 99)) for _ in range(n)]
    r = rng.random()
    if r < 0.25:
        k = rng.randint(0, n)
        items = items[:k] + [("r", rng.randint(1, 9))]          # raises at position k, then finished
    elif r < 0.32 and n:
        items.insert(rng.randint(0, n), ("r", rng.randint(1, 9)))   # an iterator class that raises midway and could go on
    return items


def gen_history(rng):
    cfg = {"streaming": rng.random() < 0.93,
           "lifetime": rng.choice([0, 0, -2, 5, 20]),
           "linger": rng.choice([0, -3, 4, 4, 30]),
           "hook": rng.random() < 0.3,      # the daemon's clientDisconnect hook raises
           "corr": rng.choice(["fresh", "fixed"])}   # the client sends one fixed correlation id with every request / none
    t0 = rng.choice([0, 1, 7, 1000])
    nprox = rng.randint(1, 3)
    seq0 = rng.choice([0, 0, 3, 65532, 65534, 65535])
    nops = rng.choice([4, 10, 20, 30, 40])
    ops = []
    n_iters = 0
    n_streams = 0
    conns_hi = 1
    for _ in range(nops):
        r = rng.random()
        if r < 0.16 or (n_iters == 0 and r < 0.5):
            p = rng.randrange(nprox)
            if rng.random() < 0.1:
                ops.append(["call", p, None])
            else:
                ops.append(["call", p, [gen_items(rng), rng.choice(["class", "gen", "gen", "list"])]])
                if cfg["streaming"]:
                    n_iters += 1
                    n_streams += 1
            conns_hi += 1
        elif r < 0.49 and n_iters:
            ops.append(["inext", rng.randrange(n_iters) if rng.random() < 0.5 else n_iters - 1])
        elif r < 0.52 and n_iters:
            ops.append(["inextlost", rng.randrange(n_iters)])      # the connection breaks during the item request
        elif r < 0.58 and n_iters:
            ops.append(["iclose", rng.randrange(n_iters)])
        elif r < 0.65:
            ops.append(["pcall", rng.randrange(nprox)])
            conns_hi += 1
        elif r < 0.72:
            ops.append(["prel", rng.randrange(nprox)])
        elif r < 0.80:
            ops.append(["hk"])
        elif r < 0.88:
            ops.append(["tick", rng.choice([1, 2, 3, 6, 16, 31])])
        elif r < 0.92:
            ops.append(["next", rng.randrange(n_streams + 1), rng.randrange(conns_hi + 1)])
        elif r < 0.94:
            ops.append(["close", rng.randrange(n_streams + 1)])
        elif r < 0.97:
            ops.append(["disc", rng.randrange(conns_hi + 1)])
        else:
            ops.append(["open", rng.randrange(conns_hi + 1), [gen_items(rng), "class"]])
            if cfg["streaming"]:
                n_streams += 1
    if rng.random() < 0.5:
        # drive the system to quiescence: every connection ends, both periods pass, one housekeeping pass
        ops += [["prel", p] for p in range(nprox)] + [["disc", c] for c in range(conns_hi + 1)]
        ops += [["tick", max(cfg["lifetime"], cfg["linger"], 0) + 1], ["hk"]]
    return {"cfg": cfg, "t0": t0, "nprox": nprox, "seq0": seq0, "ops": ops}


def items_tok(items):
    return ",".join("%s%d" % (k, v) for k, v in items)


def data_tok(d):
    return "P" if d is None else "I:" + items_tok(d[0])


def history_line(h, mask):
    c = h["cfg"]
    toks = ["hist", "1" if c["streaming"] else "0", str(c["lifetime"]), str(c["linger"]), "1" if c.get("hook") else "0",
            str(h["t0"]), str(h["nprox"]),
            str(h["seq0"]), str(mask), str(len(h["ops"]))]
    for op in h["ops"]:
        if op[0] in ("call", "open"):
            toks += [op[0], str(op[1]), data_tok(op[2])]
        else:
            toks += [str(x) for x in op]
    return " ".join(toks)


def canon_exc(x):
    from Pyro5 import errors
    if isinstance(x, StopIteration):
        return "stop"
    if isinstance(x, SrcError):
        return "raised%d" % x.code
    if isinstance(x, errors.ConnectionClosedError):
        return "connclosed"
    if isinstance(x, errors.ProtocolError):
        return "protoerr"
    if type(x) is errors.PyroError and "item stream terminated" in str(x):
        return "term"
    return "EXC:" + type(x).__name__


class Spec:
    """The property, written down independently of the Lean model: which streams the server still remembers and what the
    next reply of each must be.  Used by the oracle on the real code's replies."""

    def __init__(self, cfg):
        self.cfg = cfg
        self.streams = {}     # k -> dict(source, delivered, owner, created, linger, alive)
        self.cover = {}       # which clauses of the property this history exercised

    def hit(self, what):
        self.cover[what] = self.cover.get(what, 0) + 1

    def open(self, k, items, conn, now):
        self.streams[k] = dict(source=items, delivered=0, owner=conn, created=now, linger=None, alive=True)

    def expected_next(self, k, conn):
        s = self.streams.get(k)
        if s is None or not s["alive"]:
            return "error"
        if s["owner"] is None:          # reconnect before the stream was forgotten: continues
            s["owner"], s["linger"] = conn, None
            self.hit("resume-lingering")
        elif s["owner"] != conn:
            self.hit("next-from-foreign-connection")
        if s["delivered"] >= len(s["source"]):
            s["alive"] = False
            return "stop"
        kind, v = s["source"][s["delivered"]]
        s["delivered"] += 1
        if kind == "v":
            return "item%d" % v
        s["alive"] = False
        return "raised%d" % v

    def close(self, k):
        if k in self.streams:
            if self.streams[k]["alive"]:
                self.hit("forget:close")
            self.streams[k]["alive"] = False

    def disconnect(self, conn, now):
        for s in self.streams.values():
            if s["alive"] and s["owner"] == conn:
                if self.cfg["linger"] > 0:
                    s["owner"], s["linger"] = None, now
                    self.hit("disconnect-lingers")
                else:
                    s["alive"] = False
                    self.hit("forget:disconnect-no-linger")

    def housekeeping(self, now):
        lt, lg = self.cfg["lifetime"], self.cfg["linger"]
        for s in self.streams.values():
            if not s["alive"]:
                continue
            if lt > 0 and now - s["created"] > lt:
                s["alive"] = False
                self.hit("forget:lifetime")
            elif lg > 0 and s["linger"] is not None and now - s["linger"] > lg:
                s["alive"] = False
                self.hit("forget:linger-expired")
            elif s["linger"] is not None:
                self.hit("housekeeping-keeps-lingering")

    def alive(self):
        return sorted(k for k, s in self.streams.items() if s["alive"])


def run_history_real(world, h, ctx=None, judge=True):
    """execute a history on the real code; returns (canonical output line, list of property failures)"""
    from Pyro5 import config
    cfg = h["cfg"]
    config.ITER_STREAMING, config.ITER_STREAM_LIFETIME, config.ITER_STREAM_LINGER = cfg["streaming"], cfg["lifetime"], cfg["linger"]
    world.reset(h["t0"])
    world.daemon.hook_fails = bool(cfg.get("hook"))
    world.corr = cfg.get("corr", "fresh")
    proxies = [FakeProxy(world, h["seq0"]) for _ in range(h["nprox"])]
    iters = []          # the real _StreamResultIterator objects (kept alive: __del__ would close them)
    iter_stream = []    # client iterator -> stream index
    received = []       # per client iterator: replies
    spec = Spec(cfg)
    use_spec = judge and h["t0"] > 0
    fails = []
    results = []
    stats = {"items": 0, "forgot_other": 0, "max_open": 0}
    raw_touched = set()   # streams that also received raw daemon-object calls (a second consumer of the same stream)

    def bad(sig, desc):
        if len(fails) < 3:
            fails.append((sig, desc))

    # every call of the daemon object is observed here, whoever makes it
    orig_next, orig_close, orig_disc, orig_open = world.next, world.close, world.disconnect, world.open

    def obs_next(sid, conn):
        k = world.stream_ids.index(sid) if sid in world.stream_ids else None
        exp = spec.expected_next(k, conn.idx) if use_spec else None
        try:
            v = orig_next(sid, conn)
            got = "item%d" % v
        except Exception as x:
            got = canon_exc(x)
            if use_spec and not (got == exp or (exp == "error" and (got == "term" or got.startswith("EXC:")))):
                bad("seq:wrong-reply", "next on stream %s from connection %d: reply %s, the property demands %s" % (k, conn.idx, got, exp))
            raise
        if use_spec and got != exp:
            bad("seq:wrong-reply", "next on stream %s from connection %d: reply %s, the property demands %s" % (k, conn.idx, got, exp))
        return v

    def obs_close(sid):
        if sid in world.stream_ids:
            spec.close(world.stream_ids.index(sid))
        return orig_close(sid)

    def obs_disc(conn):
        spec.disconnect(conn.idx, world.clock.now)
        return orig_disc(conn)

    def obs_open(conn, data):
        r = orig_open(conn, data)
        if data is not None and r[0] and r[1] and world.stream_ids.count(r[1]) > 1:
            bad("seq:stream-id-reused", "a new stream got the id of stream %d, which the server still knows: the two streams now "
                "share one table entry (the requests carried the same correlation id)" % world.stream_ids.index(r[1]))
        if data is not None and r[0] and r[1]:
            spec.open(len(world.stream_ids) - 1, data[0], conn.idx, world.clock.now)
        return r
    world.next, world.close, world.disconnect, world.open = obs_next, obs_close, obs_disc, obs_open
    try:
        for op in h["ops"]:
            k = op[0]
            before = set(e[0] for e in world.table())
            try:
                if k == "call":
                    r = proxies[op[1]].call(op[2])
                    if hasattr(r, "streamId"):
                        iters.append(r)
                        iter_stream.append(world.stream_ids.index(r.streamId))
                        received.append([])
                        res = "iter%d" % (len(iters) - 1)
                    else:
                        res = "plain"
                elif k == "inext":
                    v = next(iters[op[1]])
                    res = "item%d" % v
                    stats["items"] += 1
                elif k == "inextlost":
                    it = iters[op[1]]
                    if it.proxy is not None and it.proxy._pyroConnection is not None:
                        it.proxy.lose_next = True
                        spec.hit("connection-lost-during-next")
                    v = next(it)
                    res = "item%d" % v
                elif k == "iclose":
                    nc = world.next_conn
                    live = iters[op[1]].proxy is not None and iters[op[1]].proxy._pyroConnection is not None
                    iters[op[1]].close()
                    if live:
                        spec.hit("close:second-connection(seq diverged)" if world.next_conn != nc else "close:same-proxy")
                        if judge and iter_stream[op[1]] in set(e[0] for e in world.table()):
                            bad("seq:close-not-forwarded", "it.close() on client iterator %d (proxy connected) returned but the server "
                                "still remembers its stream %d" % (op[1], iter_stream[op[1]]))
                    res = "none"
                elif k == "pcall":
                    proxies[op[1]].ping()
                    res = "none"
                elif k == "prel":
                    proxies[op[1]]._pyroRelease()
                    res = "none"
                elif k == "open":
                    is_stream, sid = world.open(world.conn(op[1]), op[2])
                    res = ("stream%d" % world.stream_ids.index(sid) if sid else "nostream") if is_stream else "notiter"
                elif k == "next":
                    raw_touched.add(op[1])
                    v = world.next(world.sid(op[1]), world.conn(op[2]))
                    res = "item%d" % v
                elif k == "close":
                    world.close(world.sid(op[1]))
                    res = "ok"
                elif k == "disc":
                    res = world.disconnect(world.conn(op[1]))
                elif k == "hk":
                    spec.housekeeping(world.clock.now)
                    world.housekeeping()
                    res = "ok"
                elif k == "tick":
                    world.clock.now += op[1]
                    world.server_events += 1
                    res = "ok"
                else:
                    raise AssertionError(op)
            except Exception as x:
                res = canon_exc(x)
            results.append(res)
            if k in ("inext", "inextlost"):
                received[op[1]].append(res)
            elif k == "iclose":
                received[op[1]].append("closed-by-client")
            now_tab = world.table()
            after = set(e[0] for e in now_tab)
            stats["max_open"] = max(stats["max_open"], len(after))
            if (before - after) and not (k in ("inext", "next") and res == "stop"):
                stats["forgot_other"] += 1
            if use_spec and sorted(after) != spec.alive():
                bad("seq:table-differs", "after %r the server remembers streams %s, the property says %s"
                    % (op, sorted(after), spec.alive()))
                use_spec = False
        # client-side view: each stream's replies are a prefix of its source, in order, once
        if judge:
            for i, rec in enumerate(received):
                if iter_stream[i] in raw_touched:
                    continue        # shared with another consumer: the per-reply check above covers it
                src = world.sources[iter_stream[i]][0]
                pos = 0
                closed = False
                for r in rec:
                    if r == "closed-by-client":
                        closed = True
                        continue
                    if r.startswith("item") or r.startswith("raised"):
                        want = ("item%d" if src[pos][0] == "v" else "raised%d") % src[pos][1] if pos < len(src) else "nothing"
                        if r != want:
                            bad("seq:client-items", "client iterator %d received %s as reply number %d, its source has %s there" % (i, r, pos, want))
                            break
                        pos += 1
                    elif r == "stop" and pos < len(src) and not closed:
                        bad("seq:client-items", "client iterator %d reports exhaustion (StopIteration) after %d of the %d items of its "
                            "source, without having been closed by the client" % (i, pos, len(src)))
                        break
        tab = world.table()
        out = ";".join(results) + " | " + (";".join("%d:%s:%d:%d:%s" % (k, "n" if o is None else o, ts, lts, items_tok(rest) or "-")
                                                    for k, o, ts, lts, rest in tab) or "-")
        out += " | " + (",".join("%s/%d" % ("n" if p._pyroConnection is None else p._pyroConnection.idx, p._pyroSeq) for p in proxies) or "-")
        out += " | " + (",".join("%s/%d/%d" % ("n" if it.proxy is None else proxies.index(it.proxy), it.pyroseq, iter_stream[i])
                                 for i, it in enumerate(iters)) or "-")
        out += " | %d" % world.server_events
        stats["cover"] = spec.cover
        if any(p._pyroSeq < h["seq0"] for p in proxies):
            spec.hit("sequence-number-wrapped")
        return out, fails, stats
    finally:
        world.next, world.close, world.disconnect, world.open = orig_next, orig_close, orig_disc, orig_open
        for it in iters:       # neutralise __del__ (it would call close_stream during a later history)
            it.proxy = None


def _corpus(kind):
    d = os.path.join(common.VERIF, "corpus", ID)
    out = []
    if os.path.isdir(d):
        for f in sorted(os.listdir(d)):
            if f.endswith(".json"):
                c = json.load(open(os.path.join(d, f)))
                if c.get("kind") == kind:
                    out.append((f, c))
    return out


def _norm_history(h):
    for op in h["ops"]:
        if op[0] in ("call", "open") and op[2] is not None:
            op[2] = [[tuple(i) for i in op[2][0]], op[2][1]]
    return h


def _histories(ctx, n, judge_only=False):
    rng = ctx.sub_rng("hist-search" if judge_only else "hist")
    world, restore = make_world()
    try:
        cases = [(_norm_history(c["history"]), f) for f, c in _corpus("history")]
        cases += [(gen_history(rng), None) for _ in range(n)]
        lines, reals = [], []
        for h, origin in cases:
            out, fails, stats = run_history_real(world, h)
            ctx.evaluations += 1
            for sig, desc in fails:
                ctx.fail(sig, desc + ("" if origin is None else " (corpus %s)" % origin), {"kind": "history", "history": h})
            line = history_line(h, world.mask)
            lines.append(line)
            reals.append(out)
            ctx.count("hist:lifetime%s/linger%s%s" % ("+" if h["cfg"]["lifetime"] > 0 else "0", "+" if h["cfg"]["linger"] > 0 else "0",
                                                       "/hook-raises" if h["cfg"].get("hook") else ""))
            for r in out.split(" | ")[0].split(";"):
                ctx.count("reply:" + r.rstrip("0123456789"))
            for k, v in stats["cover"].items():
                ctx.count("cover:" + k, v)
            if (stats["items"] >= 2 and stats["forgot_other"] >= 1) or stats["max_open"] >= 2:
                ctx.nontriv(line)
            if stats["forgot_other"] and stats["items"] >= 3:
                ctx.sample({"history": line, "real": out}, limit=4)
        if judge_only:
            return
        outs = common.run_driver("drv_c10", lines)
        ctx.corr_cases += len(lines)
        for (h, _), l, r, o in zip(cases, lines, reals, outs):
            o_main, sep, o_src = o.rpartition(" | src:")
            if not sep:
                o_main, o_src = o, "missing"
            if r != o_main:
                ctx.mismatch("histories", {"kind": "history", "history": h, "line": l}, r, o_main)
            if o_src != "ok":
                # the functions transcribed from server.py (Gen/C10.lean) do not compute what the model computes on this history
                ctx.mismatch("transcription", {"kind": "history", "history": h, "line": l}, "src:ok", "src:" + o_src)
            else:
                ctx.count("transcription:agrees")
    finally:
        restore()


def correspondence(ctx):
    """C and D in one loop: every generated history / explored schedule is executed once on the real code; its canonical
    output is compared with the model (C) and judged against the property by the model-independent checks (D)."""
    common.repo_on_path()
    from props import c10_race, c10_wire, c10_retry
    _histories(ctx, ctx.n(2500, 60000))
    c10_retry.retry_faults(ctx, ctx.n(600, 8000))
    c10_race.interleavings(ctx, corr=True)
    c10_wire.wire(ctx, ctx.n(120, 4000))
    ctx._c10_judged = True


def oracle(ctx):
    common.repo_on_path()
    from props import c10_race, c10_wire
    if not getattr(ctx, "_c10_judged", False) or ctx.search_mode:
        # the model did not build (no correspondence run), or something is broken: judge the real code on its own
        _histories(ctx, ctx.n(1500, 20000), judge_only=True)
        from props import c10_retry
        c10_retry.retry_faults(ctx, ctx.n(600, 8000))
        c10_race.interleavings(ctx, corr=False)
        c10_wire.wire(ctx, ctx.n(120, 4000))
        ctx._c10_judged = True


def replay(ctx, case):
    from props import c10_race
    f = case.get("failing_input") or {}
    c = f.get("case") or (case if "kind" in case else {})
    print(json.dumps(f, indent=1)[:3000])
    if c.get("kind") == "history":
        world, restore = make_world()
        try:
            out, fails, _ = run_history_real(world, _norm_history(c["history"]))
            print("real:", out)
            for sig, desc in fails:
                print("VIOLATION reproduced [%s]: %s" % (sig, desc))
            return 1 if fails else 0
        finally:
            restore()
    if c.get("kind") == "retry":
        from props import c10_retry
        return c10_retry.replay_case(c)
    if c.get("kind") == "race":
        return c10_race.replay_case(c)
    if c.get("kind") == "wire":
        from props import c10_wire
        return c10_wire.replay_case(c)
    print(json.dumps(case.get("no_longer_checks")))
    return 1 if f else 0
