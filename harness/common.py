"""
Shared machinery of the Pyro5 verification checks.

A check (see ../check) runs, for one property:
  A  extractor  -> lean/PyroModel/Gen/<ID>.lean ; lake build of the model, driver and theorems
  B  audit      -> no sorry/admit/axiom/native_decide/...; `#print axioms` of every property theorem
  C  correspondence: model (Lean driver executable) vs implementation (/repo, in-process)
  D  property oracle on the real code
and reports per the VIOLATION / KNOWN-FINDING protocol (DESIGN.md section 2.4).
"""
import fcntl
import hashlib
import json
import os
import random
import re
import subprocess
import sys
import time
import traceback

VERIF = os.path.dirname(os.path.dirname(os.path.abspath(__file__)))
LEAN = os.path.join(VERIF, "lean")
REPO = os.environ.get("VERIF_REPO", "/repo")
LOCKDIR = os.path.join(VERIF, ".locks")
ALLOWED_AXIOMS = {"propext", "Classical.choice", "Quot.sound"}
FORBIDDEN = re.compile(r"\b(sorry|admit|native_decide|bv_decide|implemented_by|unsafe)\b|^\s*axiom\s|maxHeartbeats\s+0")

TRUSTED_BASE = [
    "Lean 4.33.0 kernel (lake build; leanchecker in the thorough tier)",
    "axioms allowed in property theorems: propext, Classical.choice, Quot.sound (audited by #print axioms on every run)",
    "harness/extract.py (source facts -> PyroModel/Gen/*.lean) and the correspondence harness (Python) incl. canonicalisers",
    "Lean driver glue (lean/Driver/*.lean: token parsing/printing)",
    "the hand-written model is tied to /repo only by the correspondence run and the extracted facts",
]


def repo_on_path():
    if sys.path[0] != REPO:
        sys.path.insert(0, REPO)


class Timeout(Exception):
    pass


def sh(cmd, cwd=None, timeout=None, input=None):
    p = subprocess.run(cmd, cwd=cwd, stdout=subprocess.PIPE, stderr=subprocess.STDOUT, text=True,
                       timeout=timeout, input=input)
    return p.returncode, p.stdout


class Ctx:
    """Per-run context: tier, seed, budget scaling, result collection."""

    def __init__(self, pid, tier, seed):
        self.pid = pid
        self.tier = tier
        self.seed = seed
        self.rng = random.Random((hash_str(pid) << 32) ^ seed)
        self.t0 = time.time()
        self.obligations = []      # (name, ok, detail)
        self.mismatches = []       # correspondence disagreements (dicts)
        self.failures = []         # oracle failures on the real code (dicts with 'signature','desc','case')
        self.evaluations = 0
        self.nontrivial = set()
        self.samples = []
        self.dist = {}
        self.notes = []
        self.axioms = {}
        self.corr_cases = 0
        self.search_mode = False

    # ---- budget ---------------------------------------------------------
    def n(self, quick, thorough=None):
        """size of a generated run for this tier"""
        if thorough is None:
            thorough = quick * 20
        n = thorough if self.tier == "thorough" else quick
        if self.search_mode:
            n *= 3
        return n

    def sub_rng(self, name):
        return random.Random((hash_str(self.pid + "/" + name) << 32) ^ self.seed)

    # ---- bookkeeping ------------------------------------------------------
    def count(self, key, k=1):
        self.dist[key] = self.dist.get(key, 0) + k

    def sample(self, obj, limit=6):
        if len(self.samples) < limit:
            self.samples.append(obj)

    def nontriv(self, key):
        if not isinstance(key, (str, bytes)):
            key = json.dumps(key, sort_keys=True, default=repr)
        if isinstance(key, str):
            key = key.encode("utf-8", "surrogatepass")
        self.nontrivial.add(hashlib.blake2b(key, digest_size=8).digest())

    def oblige(self, name, ok, detail=""):
        self.obligations.append((name, bool(ok), detail))

    def mismatch(self, suite, case, real, model):
        self.mismatches.append({"suite": suite, "case": case, "real": real, "model": model})

    def fail(self, signature, desc, case):
        """the REAL code violates the property on `case`"""
        self.failures.append({"signature": signature, "desc": desc, "case": case})
        if signature.startswith("stuck"):
            # every further history on a tree where the server wedges costs a full wait: three witnesses are enough
            self.stuck = getattr(self, "stuck", 0) + 1
            if self.stuck >= 3:
                raise GiveUp("the server got stuck on %d histories" % self.stuck)


class GiveUp(Exception):
    """raised by Ctx.fail when going on would only repeat a failure that is already recorded (and costs minutes)"""


class DeadlinePassed(BaseException):
    """raised in the main thread by Deadline (BaseException: the harnesses' own `except Exception` must not swallow it)"""


class Deadline:
    def __init__(self, seconds):
        self.seconds = seconds
        self.passed = False

    def arm(self):
        import signal

        def fire(signum, frame):
            self.passed = True
            raise DeadlinePassed()
        signal.signal(signal.SIGALRM, fire)
        signal.setitimer(signal.ITIMER_REAL, self.seconds)

    def disarm(self):
        import signal
        signal.setitimer(signal.ITIMER_REAL, 0)
        signal.signal(signal.SIGALRM, signal.SIG_DFL)


def hash_str(s):
    return int.from_bytes(hashlib.blake2b(s.encode(), digest_size=4).digest(), "big")


# ----------------------------------------------------------------------------------------
# step A: extraction + build
# ----------------------------------------------------------------------------------------
def lake_build(targets, timeout=1500):
    os.makedirs(LOCKDIR, exist_ok=True)
    with open(os.path.join(LOCKDIR, "lake.lock"), "w") as lk:
        fcntl.flock(lk, fcntl.LOCK_EX)
        try:
            rc, out = sh(["lake", "build"] + list(targets), cwd=LEAN, timeout=timeout)
        finally:
            fcntl.flock(lk, fcntl.LOCK_UN)
    out = "\n".join(l for l in out.splitlines() if "conda.cli" not in l)
    return rc, out


def leanchecker(modules, timeout=900):
    os.makedirs(LOCKDIR, exist_ok=True)
    with open(os.path.join(LOCKDIR, "lake.lock"), "w") as lk:
        fcntl.flock(lk, fcntl.LOCK_EX)
        try:
            return sh(["lake", "env", "leanchecker"] + list(modules), cwd=LEAN, timeout=timeout)
        finally:
            fcntl.flock(lk, fcntl.LOCK_UN)


def write_if_changed(path, text):
    try:
        with open(path) as f:
            if f.read() == text:
                return False
    except FileNotFoundError:
        pass
    os.makedirs(os.path.dirname(path), exist_ok=True)
    tmp = path + ".tmp%d" % os.getpid()
    with open(tmp, "w") as f:
        f.write(text)
    os.replace(tmp, path)
    return True


def failed_decls(build_log):
    """names of theorems / lines that failed in a lake build log (best effort)"""
    errs = []
    for l in build_log.splitlines():
        m = re.match(r"error: (\S+\.lean):(\d+):(\d+): (.*)", l)
        if m:
            errs.append("%s:%s: %s" % (m.group(1), m.group(2), m.group(4)[:160]))
    return errs


def decl_at(path, line):
    """name of the theorem/def enclosing a source line"""
    try:
        lines = open(os.path.join(LEAN, path)).read().splitlines()
    except OSError:
        return None
    for i in range(min(line, len(lines)) - 1, -1, -1):
        m = re.match(r"\s*(?:@\[[^\]]*\]\s*)?(?:private\s+|protected\s+)?(theorem|lemma|def|example|instance|abbrev)\s+(\S+)?", lines[i])
        if m:
            return (m.group(2) or "example") + "@%s:%d" % (path, i + 1)
    return None


# ----------------------------------------------------------------------------------------
# step B: audit
# ----------------------------------------------------------------------------------------
def strip_comments(src):
    # remove /- ... -/ (nested) and -- comments
    out = []
    depth = 0
    i = 0
    n = len(src)
    while i < n:
        if src.startswith("/-", i):
            depth += 1
            i += 2
        elif depth and src.startswith("-/", i):
            depth -= 1
            i += 2
        elif depth:
            if src[i] == "\n":
                out.append("\n")
            i += 1
        elif src.startswith("--", i):
            while i < n and src[i] != "\n":
                i += 1
        else:
            out.append(src[i])
            i += 1
    return "".join(out)


def audit_sources(files):
    hits = []
    for f in files:
        p = os.path.join(LEAN, f)
        if not os.path.exists(p):
            hits.append("%s: missing" % f)
            continue
        for ln, line in enumerate(strip_comments(open(p).read()).splitlines(), 1):
            if FORBIDDEN.search(line):
                hits.append("%s:%d: %s" % (f, ln, line.strip()[:120]))
    return hits


def audit_axioms(pid, module, theorems):
    """returns (ok, {theorem: [axioms]}, log)"""
    modules = [module] if isinstance(module, str) else list(module)
    src = "".join("import %s\n" % m for m in modules) + "".join("#print axioms %s\n" % t for t in theorems)
    path = os.path.join(LEAN, ".lake", "audit_%s.lean" % pid)
    os.makedirs(os.path.dirname(path), exist_ok=True)
    with open(path, "w") as f:
        f.write(src)
    os.makedirs(LOCKDIR, exist_ok=True)
    with open(os.path.join(LOCKDIR, "lake.lock"), "w") as lk:
        # a concurrent `lake build` of another check may be rewriting .olean files: read them under the same lock
        fcntl.flock(lk, fcntl.LOCK_EX)
        try:
            rc, out = sh(["lake", "env", "lean", path], cwd=LEAN, timeout=600)
        finally:
            fcntl.flock(lk, fcntl.LOCK_UN)
    axioms = {}
    ok = rc == 0
    cur = None
    text = out.replace("\n  ", " ")
    for t in theorems:
        m = re.search(r"'%s' depends on axioms: \[([^\]]*)\]" % re.escape(t), text)
        if m:
            ax = [a.strip() for a in m.group(1).split(",") if a.strip()]
            axioms[t] = ax
            if not set(ax) <= ALLOWED_AXIOMS:
                ok = False
        elif re.search(r"'%s' does not depend on any axioms" % re.escape(t), text):
            axioms[t] = []
        else:
            axioms[t] = None
            ok = False
    return ok, axioms, out


# ----------------------------------------------------------------------------------------
# step C: driver
# ----------------------------------------------------------------------------------------
def run_driver(exe, lines, timeout=900):
    """feed `lines` to the compiled Lean model driver; return its output lines"""
    path = os.path.join(LEAN, ".lake", "build", "bin", exe)
    if not os.path.exists(path):
        raise RuntimeError("driver %s not built" % exe)
    data = "".join(l + "\n" for l in lines)
    p = subprocess.run([path], input=data, stdout=subprocess.PIPE, stderr=subprocess.PIPE, text=True, timeout=timeout)
    if p.returncode != 0:
        raise RuntimeError("driver %s failed rc=%d: %s" % (exe, p.returncode, p.stderr[-2000:]))
    out = p.stdout.splitlines()
    if len(out) != len(lines):
        raise RuntimeError("driver %s: %d lines in, %d lines out" % (exe, len(lines), len(out)))
    return out


def hx(b):
    b = bytes(b)
    return b.hex() if b else "-"


def unhx(s):
    return b"" if s == "-" else bytes.fromhex(s)


def cps(s):
    """python str -> comma separated code points"""
    return ",".join(str(ord(c)) for c in s) if s else "-"


# ----------------------------------------------------------------------------------------
# findings
# ----------------------------------------------------------------------------------------
def load_findings():
    path = os.path.join(VERIF, "known_findings.jsonl")
    out = []
    if os.path.exists(path):
        for l in open(path):
            l = l.strip()
            if l and not l.startswith("#"):
                out.append(json.loads(l))
    return out


def known_for(pid):
    return {f["signature"]: f for f in load_findings() if f["property"] == pid and f["status"] == "known"}


# ----------------------------------------------------------------------------------------
# evidence + verdict
# ----------------------------------------------------------------------------------------
def write_json(path, obj):
    os.makedirs(os.path.dirname(path), exist_ok=True)
    tmp = path + ".tmp%d" % os.getpid()
    with open(tmp, "w") as f:
        json.dump(obj, f, indent=1, sort_keys=True, default=repr)
        f.write("\n")
    os.replace(tmp, path)


def jsonable(x, depth=0):
    if depth > 12:
        return repr(x)
    if isinstance(x, (bytes, bytearray, memoryview)):
        return {"hex": bytes(x).hex()}
    if isinstance(x, dict):
        return {str(k): jsonable(v, depth + 1) for k, v in x.items()}
    if isinstance(x, (list, tuple, set, frozenset)):
        return [jsonable(v, depth + 1) for v in x]
    if isinstance(x, (str, int, bool)) or x is None:
        return x
    if isinstance(x, float):
        return repr(x)
    return repr(x)
