"""
Deterministic scheduling of REAL threads running REAL code, for the `schedules` quantifiers
(C15, C18, C09, C10).

Exactly one managed thread runs at a time.  A managed thread gives control back at *points*:
every operation on an instrumented object (ILock / IEvent / instrumented containers created by
`instrument`) calls `sched.point(label)`, which parks the thread until the controller picks it
again.  Which thread continues at each point is decided by a *policy* — an explicit schedule
(replay of a witness), a DFS enumeration with a preemption bound, or a seeded random choice.
Blocking (lock held, event not set) never blocks the OS thread: the thread is parked with a
predicate and is not runnable until the predicate holds; if nothing is runnable and not everything
has finished the run ends with outcome "deadlock".
"""
import threading

_REAL_THREAD_START = threading.Thread.start


class Stuck(Exception):
    pass


class _T:
    def __init__(self, tid, name):
        self.tid = tid
        self.name = name
        self.state = "new"       # new | parked | running | done
        self.go = threading.Semaphore(0)
        self.pred = None
        self.label = None
        self.exc = None
        self.result = None
        self.thread = None


class Sched:
    def __init__(self, policy, max_steps=20000, stall_timeout=20.0):
        self.policy = policy
        self.threads = []
        self.cv = threading.Condition()
        self.tls = threading.local()
        self.trace = []          # (tid, label) in execution order
        self.choices = []        # per step: (runnable tuple, chosen, previous)
        self.max_steps = max_steps
        self.stall_timeout = stall_timeout
        self.last = None
        self.outcome = None

    # ---- called from managed threads -----------------------------------------------------
    def me(self):
        t = getattr(self.tls, "t", None)
        return t.tid if t is not None else ("os", threading.get_ident())

    def point(self, label=None):
        t = getattr(self.tls, "t", None)
        if t is None:
            return
        self._park(t, label)

    def block_until(self, pred, label=None):
        t = getattr(self.tls, "t", None)
        if t is None:
            # unmanaged thread: must already hold
            if not pred():
                raise Stuck("unmanaged thread would block at %r" % (label,))
            return
        while not pred():
            t.pred = pred
            self._park(t, label)
        t.pred = None

    def _park(self, t, label):
        with self.cv:
            t.state = "parked"
            t.label = label
            self.cv.notify_all()
        t.go.acquire()

    # ---- thread creation ------------------------------------------------------------------
    def spawn(self, fn, name=None):
        """create a managed thread running fn(); returns its tid (it parks before its first step)"""
        t = _T(len(self.threads), name or "t%d" % len(self.threads))
        self.threads.append(t)

        def boot():
            self.tls.t = t
            self._park(t, "start")
            try:
                t.result = fn()
            except BaseException as e:      # noqa: recorded, reported by the caller
                t.exc = e
            finally:
                with self.cv:
                    t.state = "done"
                    self.cv.notify_all()

        th = threading.Thread(target=boot, name="sched-" + t.name, daemon=True)
        t.thread = th
        _REAL_THREAD_START(th)
        self._wait_child_parked(t)
        return t.tid

    def adopt_start(self, thread_obj, name=None):
        """replacement for threading.Thread.start(): the started thread becomes a managed thread"""
        t = _T(len(self.threads), name or "w%d" % len(self.threads))
        self.threads.append(t)
        orig_run = thread_obj.run

        def run():
            self.tls.t = t
            self._park(t, "start")
            try:
                orig_run()
            except BaseException as e:      # noqa
                t.exc = e
            finally:
                with self.cv:
                    t.state = "done"
                    self.cv.notify_all()

        thread_obj.run = run
        t.thread = thread_obj
        _REAL_THREAD_START(thread_obj)
        self._wait_child_parked(t)
        return t.tid

    def _wait_child_parked(self, t):
        with self.cv:
            if not self.cv.wait_for(lambda: t.state in ("parked", "done"), timeout=self.stall_timeout):
                raise Stuck("child thread did not park")

    # ---- controller -----------------------------------------------------------------------
    def runnable(self):
        out = []
        for t in self.threads:
            if t.state == "parked" and (t.pred is None or t.pred()):
                out.append(t.tid)
        return out

    def run(self):
        steps = 0
        while True:
            with self.cv:
                ok = self.cv.wait_for(lambda: all(t.state in ("parked", "done") for t in self.threads),
                                      timeout=self.stall_timeout)
            if not ok:
                self.outcome = "stalled"
                raise Stuck("a managed thread neither parked nor finished: %r" %
                            [(t.tid, t.state, t.label) for t in self.threads])
            r = self.runnable()
            if not r:
                self.outcome = "ok" if all(t.state == "done" for t in self.threads) else "deadlock"
                return self.outcome
            steps += 1
            if steps > self.max_steps:
                self.outcome = "steplimit"
                return self.outcome
            tid = self.policy(self, r)
            if tid not in r:
                tid = r[0]
            self.choices.append((tuple(r), tid, self.last))
            t = self.threads[tid]
            self.trace.append((tid, t.label))
            self.last = tid
            with self.cv:
                t.state = "running"
            t.go.release()

    def abandon(self):
        """let every still-parked thread run to completion unmanaged (after a deadlock / step limit)"""
        for t in self.threads:
            if t.state == "parked":
                t.pred = None
        # threads blocked forever are daemon threads; nothing else to do


# ---- instrumented primitives ---------------------------------------------------------------
class ILock:
    def __init__(self, sched, name="lock", reentrant=False):
        self.sched = sched
        self.name = name
        self.reentrant = reentrant
        self.owner = None
        self.count = 0
        self.acquisitions = 0

    def acquire(self, blocking=True, timeout=-1):
        me = self.sched.me()
        self.sched.point(("acquire", self.name))
        if self.reentrant and self.owner == me:
            self.count += 1
            return True
        if not blocking:
            if self.owner is None:
                self.owner, self.count = me, 1
                self.acquisitions += 1
                return True
            return False
        self.sched.block_until(lambda: self.owner is None, ("wait", self.name))
        self.owner, self.count = me, 1
        self.acquisitions += 1
        return True

    def release(self):
        if self.owner != self.sched.me():
            raise RuntimeError("release of un-acquired lock %s" % self.name)
        self.count -= 1
        if self.count == 0:
            self.owner = None
            # the instant after a lock is released is a preemption point of its own: what the releasing thread
            # does next (outside the lock) may interleave with whoever takes the lock now
            self.sched.point(("released", self.name))

    def locked(self):
        return self.owner is not None

    def __enter__(self):
        self.acquire()
        return self

    def __exit__(self, *a):
        self.release()


class IEvent:
    def __init__(self, sched, name="event"):
        self.sched = sched
        self.name = name
        self.flag = False

    def set(self):
        self.sched.point(("set", self.name))
        self.flag = True
        # the waiter may wake before the setter executes its next statement
        self.sched.point(("set-done", self.name))

    def clear(self):
        self.sched.point(("clear", self.name))
        self.flag = False

    def is_set(self):
        return self.flag

    isSet = is_set

    def wait(self, timeout=None):
        self.sched.point(("wait", self.name))
        if timeout is None:
            self.sched.block_until(lambda: self.flag, ("waiting", self.name))
            return True
        # a timed wait may return False at any time: modelled as "returns the current flag" after one yield
        return self.flag


def instrument_class(sched, base, name, methods):
    """subclass of `base` (set / dict / a storage class ...) whose listed methods are yield points"""
    ns = {}
    for m in methods:
        def make(m):
            real = getattr(base, m)

            def f(self, *a, **k):
                sched.point((name, m))
                return real(self, *a, **k)
            f.__name__ = m
            return f
        ns[m] = make(m)
    return type("I_" + base.__name__, (base,), ns)


def instrument(sched, obj, name, methods):
    """copy of a builtin container (set / dict / list) whose listed methods are yield points"""
    return instrument_class(sched, type(obj), name, methods)(obj)


# ---- policies ------------------------------------------------------------------------------
def replay_policy(schedule):
    """follow an explicit list of tids; afterwards (or on an unrunnable choice) continue non-preemptively"""
    it = iter(schedule)

    def policy(sched, runnable):
        for tid in it:
            if tid in runnable:
                return tid
            break
        return sched.last if sched.last in runnable else runnable[0]
    return policy


def random_policy(rng, switch_prob=0.3):
    def policy(sched, runnable):
        if sched.last in runnable and rng.random() > switch_prob:
            return sched.last
        return rng.choice(runnable)
    return policy


def explore(run_once, max_preemptions=2, max_runs=2000):
    """
    Iterative context bounding.  run_once(policy) must build a fresh system + Sched(policy), run it and
    return (sched, outcome_object).  Yields (prefix, sched, outcome) for every explored schedule.
    """
    stack = [[]]
    seen = 0
    while stack and seen < max_runs:
        prefix = stack.pop()
        sched, outcome = run_once(replay_policy(prefix))
        seen += 1
        yield prefix, sched, outcome
        chosen = [c[1] for c in sched.choices]
        # children: deviate at a position at or after the prefix
        for i in range(len(prefix), len(sched.choices)):
            runnable, pick, prev = sched.choices[i]
            for alt in runnable:
                if alt == pick:
                    continue
                newp = chosen[:i] + [alt]
                # count preemptions in newp: a switch away from a still-runnable previous thread
                pre = 0
                for j, tid in enumerate(newp):
                    rj, _, pj = sched.choices[j]
                    if pj is not None and tid != pj and pj in rj:
                        pre += 1
                if pre <= max_preemptions:
                    stack.append(newp)
