"""
py2ir.py — transcribe the current source of socketutil.receive_data / send_data into a term of
Pyro.PyIR.Stmt (lean/PyroModel/PyIR.lean), one IR node per Python AST node, no analysis.

Names are resolved through the REAL module's namespace (`TimeoutError` in socketutil is
Pyro5.errors.TimeoutError, `socket.error` is OSError, `ERRNO_RETRIES` must be socketutil.ERRNO_RETRIES itself);
anything outside the fragment raises Untranslatable, and the caller turns that into a broken obligation.
"""
import ast
import inspect
import textwrap


class Untranslatable(Exception):
    pass


def q(s):
    return '"' + s.replace("\\", "\\\\").replace('"', '\\"') + '"'


class Tr:
    def __init__(self, module, sockname="sock"):
        self.m = module
        self.g = vars(module)
        self.sock = sockname
        self.locals = set()
        import socket
        import zlib
        from Pyro5 import errors
        self.classes = [(socket.timeout, "socketTimeout"), (OSError, "osError"),
                        (errors.TimeoutError, "pyroTimeout"), (errors.ConnectionClosedError, "connClosed"),
                        (ValueError, "valueError"), (AssertionError, "assertionError"), (UnicodeDecodeError, "unicodeDecodeError"),
                        (errors.ProtocolError, "protocolError"), (zlib.error, "zlibError"),
                        (__import__("struct").error, "structError"), (UnicodeEncodeError, "unicodeEncodeError")]
        self.tmp = 0

    # ---------------------------------------------------------------- names
    def resolve(self, node):
        try:
            return eval(compile(ast.Expression(node), "<py2ir>", "eval"), dict(self.g))
        except Exception:
            raise Untranslatable("cannot resolve %s" % ast.unparse(node))

    def cls(self, node):
        obj = self.resolve(node)
        for c, name in self.classes:
            if obj is c:
                return ".%s" % name
        raise Untranslatable("exception class outside the fragment: %s" % ast.unparse(node))

    def is_sock_call(self, node, meth):
        return (isinstance(node, ast.Call) and isinstance(node.func, ast.Attribute) and node.func.attr == meth
                and isinstance(node.func.value, ast.Name) and node.func.value.id == self.sock)

    # ---------------------------------------------------------------- expressions
    def expr(self, e):
        if isinstance(e, ast.Constant):
            if e.value is True or e.value is False:
                return "(.lit (.bool %s))" % ("true" if e.value else "false")
            if e.value is None:
                return "(.lit .none)"
            if isinstance(e.value, int):
                return "(.lit (.int %d))" % e.value
            if isinstance(e.value, bytes):
                return "(.bytesLit [%s])" % ", ".join(str(b) for b in e.value)
            raise Untranslatable("constant %r" % (e.value,))
        if isinstance(e, ast.Name):
            if e.id in self.g and e.id == "USE_MSG_WAITALL":
                return ".useWaitall"
            if e.id not in self.locals and e.id in self.g and type(self.g[e.id]) is int:
                return "(.lit (.int %d))" % self.g[e.id]          # a module-level integer constant
            if e.id not in self.locals and e.id in self.g and type(self.g[e.id]) is bytes:
                return "(.bytesLit [%s])" % ", ".join(str(b) for b in self.g[e.id])     # a module-level bytes constant
            return "(.var %s)" % q(self.nm(e.id))
        if isinstance(e, ast.Attribute) and isinstance(e.value, ast.Name) and e.value.id == "self":
            return "(.var %s)" % q("self." + e.attr)
        if isinstance(e, ast.Attribute) and e.attr == "MAX_MESSAGE_SIZE" and isinstance(e.value, ast.Name) \
                and self.g.get(e.value.id) is __import__("Pyro5").config:
            return ".maxSize"
        if isinstance(e, ast.Dict) and not e.keys:
            return ".emptyDict"
        if isinstance(e, ast.List) and not e.elts:
            return ".emptyList"
        if isinstance(e, ast.Attribute) and e.attr == "COMPRESSION" and isinstance(e.value, ast.Name) \
                and self.g.get(e.value.id) is __import__("Pyro5").config:
            return ".compressionOn"
        if isinstance(e, ast.Attribute) and e.attr == "correlation_id" and isinstance(e.value, ast.Name) \
                and e.value.id not in self.locals and self.g.get(e.value.id) is __import__("Pyro5.callcontext").callcontext.current_context:
            return ".corrId"
        if isinstance(e, ast.Attribute) and e.attr == "bytes":
            return "(.uuidBytes %s)" % self.expr(e.value)
        if isinstance(e, ast.IfExp):
            return "(.ifExp %s %s %s)" % (self.expr(e.test), self.expr(e.body), self.expr(e.orelse))
        if isinstance(e, ast.Attribute) and getattr(self, "lenient", False):
            return "(.unsupportedE %s)" % q(ast.unparse(e)[:60])
        if isinstance(e, ast.Call):
            f = e.func
            if isinstance(f, ast.Name) and not e.keywords:
                if f.id == "len" and len(e.args) == 1:
                    return "(.len %s)" % self.expr(e.args[0])
                if f.id == "min" and len(e.args) == 2:
                    return "(.min %s %s)" % (self.expr(e.args[0]), self.expr(e.args[1]))
                if f.id == "bytearray" and not e.args:
                    return ".emptyBytes"
                if f.id == "memoryview" and len(e.args) == 1:
                    return self.expr(e.args[0])                       # a view of the same bytes

                if f.id == "hasattr" and len(e.args) == 2 and isinstance(e.args[0], ast.Name) and e.args[0].id == self.sock \
                        and isinstance(e.args[1], ast.Constant) and isinstance(e.args[1].value, str):
                    return "(.sockHasattr %s)" % q(e.args[1].value)
                if f.id == "getattr" and len(e.args) == 3 and isinstance(e.args[1], ast.Constant) and e.args[1].value == "errno" \
                        and ast.unparse(e.args[2]) == ast.unparse(e.args[0]) + ".args[0]":
                    return "(.errnoOf %s)" % self.expr(e.args[0])
                if f.id == "isinstance" and len(e.args) == 2:
                    T = self.resolve(e.args[1])
                    return "(.isInst %s %s)" % (self.expr(e.args[0]), "true" if isinstance(b"", T) else "false")
                if f.id == "sum" and len(e.args) == 1 and isinstance(e.args[0], (ast.ListComp, ast.GeneratorExp)):
                    c = e.args[0]
                    g = c.generators[0]
                    if len(c.generators) == 1 and not g.ifs and not g.is_async and isinstance(g.target, ast.Name) \
                            and isinstance(g.iter, ast.Call) and isinstance(g.iter.func, ast.Attribute) and g.iter.func.attr == "values" \
                            and not g.iter.args and not g.iter.keywords:
                        return "(.sumValues %s %s %s)" % (q(self.nm(g.target.id)), self.expr(g.iter.func.value), self.expr(c.elt))
                inl = self.inline_expr_helper(e)
                if inl is not None:
                    return self.expr(inl)
                obj = self.g.get(f.id)
                if inspect.isgeneratorfunction(obj) and obj.__name__ == "__retrydelays" and not e.args:
                    return ".delays"
                if isinstance(obj, type) and issubclass(obj, BaseException):
                    return "(.mkExc %s)" % self.cls(f)
            if isinstance(f, ast.Attribute) and f.attr == "startswith" and len(e.args) == 1 and not e.keywords and self.is_bytes(e.args[0]):
                return "(.startsWith %s %s)" % (self.expr(f.value), self.expr(e.args[0]))
            if isinstance(f, ast.Attribute) and f.attr == "join" and len(e.args) == 1 and not e.keywords \
                    and isinstance(f.value, ast.Constant) and f.value.value == b"":
                return "(.joinChunks %s)" % self.expr(e.args[0])
            if isinstance(f, ast.Attribute) and ast.unparse(f) == "int.from_bytes" and len(e.args) == 2 and not e.keywords \
                    and isinstance(e.args[1], ast.Constant) and e.args[1].value == "big":
                return "(.fromBytesBig %s)" % self.expr(e.args[0])
            raise Untranslatable("call %s" % ast.unparse(e))
        if isinstance(e, ast.BinOp):
            if isinstance(e.op, ast.Sub):
                return "(.sub %s %s)" % (self.expr(e.left), self.expr(e.right))
            if isinstance(e.op, ast.Add) and self.bytes_typed(e):
                return "(.concat %s %s)" % (self.expr(e.left), self.expr(e.right))
            if isinstance(e.op, ast.Add):
                return "(.add %s %s)" % (self.expr(e.left), self.expr(e.right))
            if isinstance(e.op, ast.BitAnd):
                return "(.bitand %s %s)" % (self.expr(e.left), self.expr(e.right))
            raise Untranslatable("operator in %s" % ast.unparse(e))
        if isinstance(e, ast.UnaryOp) and isinstance(e.op, ast.Not):
            return "(.not %s)" % self.expr(e.operand)
        if isinstance(e, ast.BoolOp):
            tag = "and" if isinstance(e.op, ast.And) else "or"
            out = self.expr(e.values[0])
            for v in e.values[1:]:
                out = "(.%s %s %s)" % (tag, out, self.expr(v))
            return out
        if isinstance(e, ast.Compare) and len(e.ops) == 1 and isinstance(e.ops[0], (ast.Eq, ast.NotEq)) \
                and isinstance(e.left, ast.Tuple) and isinstance(e.comparators[0], ast.Tuple) \
                and len(e.left.elts) == len(e.comparators[0].elts) >= 1:
            # (a, b, c) != (x, y, z)  ==  a != x or b != y or c != z     (and dually for ==)
            parts = [self.expr(ast.Compare(left=l, ops=[e.ops[0]], comparators=[r])) for l, r in zip(e.left.elts, e.comparators[0].elts)]
            out = parts[0]
            for q_ in parts[1:]:
                out = "(.%s %s %s)" % ("or" if isinstance(e.ops[0], ast.NotEq) else "and", out, q_)
            return out
        if isinstance(e, ast.Compare) and len(e.ops) == 1:
            op, a, b = e.ops[0], e.left, e.comparators[0]
            if isinstance(op, (ast.In, ast.NotIn)):
                if not (isinstance(b, ast.Name) and self.g.get(b.id) is getattr(self.m, "ERRNO_RETRIES", object())):
                    raise Untranslatable("membership in something other than ERRNO_RETRIES: %s" % ast.unparse(e))
                r = "(.inRetries %s)" % self.expr(a)
                return r if isinstance(op, ast.In) else "(.not %s)" % r
            if isinstance(op, ast.Is) and isinstance(b, ast.Constant) and b.value is None and self.is_sock_call(a, "gettimeout") and not a.args:
                return ".timeoutIsNone"
            if isinstance(op, (ast.Is, ast.IsNot)) and isinstance(b, ast.Constant) and b.value is None:
                r = "(.isNone %s)" % self.expr(a)
                return r if isinstance(op, ast.Is) else "(.not %s)" % r
            if isinstance(op, (ast.Eq, ast.NotEq)) and (self.is_bytes(a) or self.is_bytes(b)):
                return "(.%s %s %s)" % ("eqB" if isinstance(op, ast.Eq) else "neB", self.expr(a), self.expr(b))
            tag = {ast.Eq: "eq", ast.NotEq: "ne", ast.Lt: "lt", ast.LtE: "le"}.get(type(op))
            if tag:
                return "(.%s %s %s)" % (tag, self.expr(a), self.expr(b))
            if isinstance(op, ast.Gt):
                return "(.lt %s %s)" % (self.expr(b), self.expr(a))
            if isinstance(op, ast.GtE):
                return "(.le %s %s)" % (self.expr(b), self.expr(a))
            raise Untranslatable("comparison %s" % ast.unparse(e))
        if isinstance(e, ast.Subscript) and isinstance(e.slice, ast.Slice) and e.slice.upper is None and e.slice.step is None \
                and e.slice.lower is not None:
            return "(.sliceFrom %s %s)" % (self.expr(e.value), self.expr(e.slice.lower))
        if isinstance(e, ast.Subscript) and isinstance(e.slice, ast.Slice) and e.slice.upper is not None and e.slice.step is None \
                and e.slice.lower is not None:
            return "(.slice %s %s %s)" % (self.expr(e.value), self.expr(e.slice.lower), self.expr(e.slice.upper))
        raise Untranslatable("expression %s" % ast.unparse(e))

    # ---------------------------------------------------------------- statements
    # ---------------------------------------------------------------- helper inlining
    def helper_of(self, call):
        """the FunctionDef a call refers to when it is a private helper of the same class (`self._x(...)`) or of the module
        (`_x(...)`), else None"""
        f = call.func
        owner = getattr(self, "owner", None)
        if isinstance(f, ast.Attribute) and isinstance(f.value, ast.Name) and f.value.id == "self" and owner is not None \
                and f.attr.startswith("_") and not f.attr.startswith("__"):
            fn = vars(owner).get(f.attr)
            fn = getattr(fn, "__func__", fn)
            skip_self = not isinstance(vars(owner).get(f.attr), staticmethod)
        elif isinstance(f, ast.Name) and f.id.startswith("_") and inspect.isfunction(self.g.get(f.id)) \
                and not inspect.isgeneratorfunction(self.g.get(f.id)):
            fn, skip_self = self.g.get(f.id), False
        else:
            return None
        if not inspect.isfunction(fn):
            return None
        fd = ast.parse(textwrap.dedent(inspect.getsource(fn))).body[0]
        params = [a.arg for a in fd.args.args][1 if skip_self else 0:]
        if fd.args.vararg or fd.args.kwarg or fd.args.kwonlyargs or call.keywords or len(params) != len(call.args) \
                or not all(isinstance(a, (ast.Name, ast.Constant)) for a in call.args):
            return None
        stored = {n.id for n in ast.walk(fd) if isinstance(n, ast.Name) and isinstance(n.ctx, ast.Store)}
        if any(isinstance(a, ast.Constant) and p in stored for p, a in zip(params, call.args)):
            return None
        return fd, dict(zip(params, call.args))

    def expand(self, stmts, depth=0):
        """splice the bodies of private helpers into the statement list: `self._x()` / `_x(a, b)` as a statement (helper without
        `return <value>`), and `return _x(a, b)` in tail position - pure code motion then leaves the transcription unchanged"""
        out = []
        for st in stmts:
            call, tail = None, False
            if isinstance(st, ast.Expr) and isinstance(st.value, ast.Call):
                call = st.value
            elif isinstance(st, ast.Return) and isinstance(st.value, ast.Call):
                call, tail = st.value, True
            h = self.helper_of(call) if (call is not None and depth < 3) else None
            if h is None:
                out.append(st)
                continue
            fd, ren = h
            body = [b for b in fd.body if not (isinstance(b, ast.Expr) and isinstance(b.value, ast.Constant) and isinstance(b.value.value, str))]
            rets = [n for n in ast.walk(fd) if isinstance(n, ast.Return)]
            if not tail and any(r.value is not None for r in rets):
                out.append(st)
                continue
            if not tail and any(r is not body[-1] for r in rets):
                out.append(st)             # an early `return` in a helper called as a statement would leave the caller
                continue
            helper_locals = {n.id for n in ast.walk(fd) if isinstance(n, ast.Name) and isinstance(n.ctx, ast.Store)} - set(ren)

            class R(ast.NodeTransformer):
                def visit_Name(self_inner, n):
                    a = ren.get(n.id)
                    if a is None:
                        return n
                    if isinstance(a, ast.Name):
                        return ast.copy_location(ast.Name(id=a.id, ctx=n.ctx), n)
                    return ast.copy_location(ast.Constant(value=a.value), n)
            body = [R().visit(b) for b in body]
            if not tail and body and isinstance(body[-1], ast.Return):
                body = body[:-1]
            self.locals |= helper_locals
            out += self.expand(body, depth + 1)
        return out

    def expand_all(self, stmts):
        """expand() applied to this statement list and to every nested one"""
        out = self.expand(list(stmts))
        for st in out:
            for field in ("body", "orelse", "finalbody"):
                if isinstance(getattr(st, field, None), list) and not isinstance(st, (ast.FunctionDef, ast.ClassDef, ast.Lambda)):
                    setattr(st, field, self.expand_all(getattr(st, field)))
            for h in getattr(st, "handlers", []) or []:
                h.body = self.expand_all(h.body)
        return out

    def block(self, stmts):
        out = None
        for s in reversed(stmts):
            t = self.stmt(s)
            if t == ".skip" and out is not None:
                continue
            out = t if out is None else "(.seq %s %s)" % (t, out)
        return out or ".skip"

    def stmt(self, s):
        if not getattr(self, "lenient", False):
            return self.stmt1(s)
        try:
            return self.stmt1(s)
        except Untranslatable:
            if isinstance(s, (ast.If, ast.While, ast.For, ast.Try, ast.With)):
                raise                                  # only leaf statements may be left opaque
            return "(.unsupported %s)" % q(ast.unparse(s)[:80])

    def stmt1(self, s):
        if isinstance(s, ast.Expr):
            v = s.value
            if isinstance(v, ast.Constant) and isinstance(v.value, str):
                return ".skip"                                        # docstring
            if isinstance(v, ast.Call) and isinstance(v.func, ast.Attribute) and ast.unparse(v.func.value) == "self.sock":
                import socket
                if v.func.attr == "shutdown" and len(v.args) == 1 and self.resolve(v.args[0]) == socket.SHUT_RDWR:
                    return ".sockShutdown"
                if v.func.attr == "close" and not v.args:
                    return ".sockClose"
            if isinstance(v, ast.Call) and isinstance(v.func, ast.Attribute) and v.func.attr == "close" and not v.args \
                    and isinstance(v.func.value, ast.Name) and v.func.value.id in self.locals:
                return "(.closeRes %s)" % self.expr(v.func.value)
            if isinstance(v, ast.Call) and isinstance(v.func, ast.Attribute) and v.func.attr == "clear" and not v.args:
                return "(.clearColl %s)" % q(self.target(v.func.value))
            if isinstance(v, ast.Call) and isinstance(v.func, ast.Attribute) and v.func.attr == "append" and len(v.args) == 1 \
                    and not v.keywords and isinstance(v.func.value, ast.Name) and v.func.value.id in self.locals:
                x = q(self.nm(v.func.value.id))
                if self.is_pack(v.args[0]):
                    t = "t%d" % self.tmp
                    self.tmp += 1
                    return "(.seq %s (.appendTo %s (.var %s)))" % (self.pack(t, v.args[0]), x, q(t))
                return "(.appendTo %s %s)" % (x, self.expr(v.args[0]))
            if isinstance(v, ast.Call) and isinstance(v.func, ast.Attribute):
                if v.func.attr == "extend" and isinstance(v.func.value, ast.Name) and len(v.args) == 1:
                    return "(.extend %s %s)" % (q(self.nm(v.func.value.id)), self.expr(v.args[0]))
                if self.is_sock_call(v, "sendall") and len(v.args) == 1:
                    return "(.sendall %s)" % self.expr(v.args[0])
                if ast.unparse(v.func) == "time.sleep" and self.g.get("time") is __import__("time") and len(v.args) == 1 \
                        and isinstance(v.args[0], ast.Call) and ast.unparse(v.args[0].func) == "next" and len(v.args[0].args) == 1 \
                        and isinstance(v.args[0].args[0], ast.Name):
                    return ".sleep"
            raise Untranslatable("statement %s" % ast.unparse(s))
        if isinstance(s, ast.Assign) and len(s.targets) == 1 and isinstance(s.targets[0], ast.Tuple) and isinstance(s.value, ast.Call) \
                and ast.unparse(s.value.func) == "struct.unpack" and len(s.value.args) == 2 and self.g.get("struct") is __import__("struct"):
            fmt = self.resolve(s.value.args[0])
            if not (isinstance(fmt, str) and fmt.startswith("!")):
                raise Untranslatable("struct format %r" % (fmt,))
            import re as _re
            flds = []
            for cnt, ch in _re.findall(r"(\d*)([a-zA-Z])", fmt[1:]):
                if ch == "s":
                    flds.append("(.raw %d)" % int(cnt or 1))
                elif ch in "BHI" and not cnt:
                    flds.append("(.uint %d)" % {"B": 1, "H": 2, "I": 4}[ch])
                else:
                    raise Untranslatable("struct field %s%s" % (cnt, ch))
            import struct as _struct
            if _struct.calcsize(fmt) != sum(int(x.split()[1].rstrip(")")) for x in flds):
                raise Untranslatable("struct format size")
            tg = [("_" if (isinstance(t, ast.Name) and t.id == "_") else self.target(t)) for t in s.targets[0].elts]
            return "(.unpackInto [%s] [%s] %s)" % (", ".join(q(t) for t in tg), ", ".join(flds), self.expr(s.value.args[1]))
        if isinstance(s, ast.Assert) and s.msg is None:
            return "(.assert_ %s)" % self.expr(s.test)
        if isinstance(s, ast.AugAssign) and isinstance(s.op, ast.BitAnd) and isinstance(s.value, ast.UnaryOp) \
                and isinstance(s.value.op, ast.Invert):
            return "(.clearBits %s %s)" % (q(self.target(s.target)), self.expr(s.value.operand))
        if isinstance(s, ast.AugAssign) and isinstance(s.op, ast.BitOr):
            return "(.setBits %s %s)" % (q(self.target(s.target)), self.expr(s.value))
        if isinstance(s, ast.Assign) and len(s.targets) == 1 and isinstance(s.targets[0], (ast.Name, ast.Attribute)) and self.is_pack(s.value):
            return self.pack(self.target(s.targets[0]), s.value)
        if isinstance(s, ast.Assign) and len(s.targets) == 1 and isinstance(s.targets[0], (ast.Name, ast.Attribute)) \
                and isinstance(s.value, ast.Call) and ast.unparse(s.value.func) == "zlib.compress" and len(s.value.args) in (1, 2) \
                and not s.value.keywords and self.g.get("zlib") is __import__("zlib"):
            return "(.compress %s %s)" % (q(self.target(s.targets[0])), self.expr(s.value.args[0]))
        if isinstance(s, ast.Assign) and len(s.targets) == 1 and isinstance(s.targets[0], (ast.Name, ast.Attribute)) \
                and isinstance(s.value, ast.BoolOp) and isinstance(s.value.op, ast.Or) and len(s.value.values) == 2:
            return "(.assign %s (.orElse %s %s))" % (q(self.target(s.targets[0])), self.expr(s.value.values[0]), self.expr(s.value.values[1]))
        if isinstance(s, ast.For) and not s.orelse and isinstance(s.target, ast.Tuple) and len(s.target.elts) == 2 \
                and all(isinstance(t, ast.Name) for t in s.target.elts) and isinstance(s.iter, ast.Call) \
                and isinstance(s.iter.func, ast.Attribute) and s.iter.func.attr == "items" and not s.iter.args and not s.iter.keywords:
            return "(.forEachItem %s %s %s %s)" % (q(self.nm(s.target.elts[0].id)), q(self.nm(s.target.elts[1].id)),
                                                   self.expr(s.iter.func.value), self.block(s.body))
        if isinstance(s, ast.Assign) and len(s.targets) == 1 and isinstance(s.targets[0], ast.Subscript) \
                and not isinstance(s.targets[0].slice, ast.Slice):
            t = s.targets[0]
            return "(.dictSetItem %s %s %s)" % (q(self.target(t.value)), self.expr(t.slice), self.expr(s.value))
        if isinstance(s, ast.Assign) and len(s.targets) == 1 and isinstance(s.targets[0], (ast.Name, ast.Attribute)) \
                and not (isinstance(s.targets[0], ast.Attribute) and s.targets[0].attr == "partialData"):
            t, v = self.target(s.targets[0]), s.value
            # x = bytes(<e>).decode("ascii")
            if isinstance(v, ast.Call) and isinstance(v.func, ast.Attribute) and v.func.attr == "decode" and len(v.args) == 1 \
                    and isinstance(v.args[0], ast.Constant) and v.args[0].value == "ascii" and isinstance(v.func.value, ast.Call) \
                    and isinstance(v.func.value.func, ast.Name) and v.func.value.func.id == "bytes" and len(v.func.value.args) == 1:
                return "(.decodeAscii %s %s)" % (q(t), self.expr(v.func.value.args[0]))
            if isinstance(v, ast.Call) and ast.unparse(v.func) == "zlib.decompress" and len(v.args) == 1 \
                    and self.g.get("zlib") is __import__("zlib"):
                return "(.decompress %s %s)" % (q(t), self.expr(v.args[0]))
            if isinstance(s.targets[0], ast.Attribute):
                return "(.assign %s %s)" % (q(t), self.expr(v))
        if isinstance(s, ast.Assign) and len(s.targets) == 1:
            t, v = s.targets[0], s.value
            if isinstance(t, ast.Name):
                if self.is_sock_call(v, "recv") and len(v.args) in (1, 2):
                    if len(v.args) == 2:
                        import socket
                        if self.resolve(v.args[1]) != socket.MSG_WAITALL:
                            raise Untranslatable("recv flags %s" % ast.unparse(v.args[1]))
                    return "(.recv %s %s)" % (q(self.nm(t.id)), self.expr(v.args[0]))
                if self.is_sock_call(v, "send") and len(v.args) == 1:
                    return "(.send %s %s)" % (q(self.nm(t.id)), self.expr(v.args[0]))
                return "(.assign %s %s)" % (q(self.nm(t.id)), self.expr(v))
            if isinstance(t, ast.Attribute) and t.attr == "partialData" and isinstance(t.value, ast.Name):
                return "(.setPartial %s %s)" % (q(self.nm(t.value.id)), self.expr(v))
            raise Untranslatable("assignment %s" % ast.unparse(s))
        if isinstance(s, ast.AugAssign) and isinstance(s.op, ast.Add) and isinstance(s.target, (ast.Name, ast.Attribute)):
            return "(.augAdd %s %s)" % (q(self.target(s.target)), self.expr(s.value))
        if isinstance(s, ast.If):
            return "(.ite %s %s %s)" % (self.expr(s.test), self.block(s.body), self.block(s.orelse))
        if isinstance(s, ast.While) and not s.orelse:
            return "(.while_ %s %s)" % (self.expr(s.test), self.block(s.body))
        if isinstance(s, ast.Try) and not s.finalbody and not s.orelse:
            h = ".reraise"
            for hd in reversed(s.handlers):
                if hd.type is None:
                    raise Untranslatable("bare except")
                bind = "(some %s)" % q(self.nm(hd.name)) if hd.name else "none"
                h = "(.excMatch %s %s %s %s)" % (self.cls(hd.type), bind, self.block(hd.body), h)
            return "(.try_ %s %s)" % (self.block(s.body), h)
        if isinstance(s, ast.With) and len(s.items) == 1 and s.items[0].optional_vars is None:
            ce = s.items[0].context_expr
            import contextlib
            if isinstance(ce, ast.Call) and self.resolve(ce.func) is contextlib.suppress and len(ce.args) == 1 \
                    and self.resolve(ce.args[0]) is Exception:
                return "(.suppress %s)" % self.block(s.body)
            raise Untranslatable("with %s" % ast.unparse(ce))
        if isinstance(s, ast.For) and not s.orelse and isinstance(s.target, ast.Name):
            return "(.forEach %s %s %s)" % (q(self.nm(s.target.id)), self.expr(s.iter), self.block(s.body))
        if isinstance(s, ast.Return):
            return "(.ret %s)" % (self.expr(s.value) if s.value is not None else "(.lit .none)")
        if isinstance(s, ast.Raise) and s.exc is not None and s.cause is None:
            x = s.exc
            if isinstance(x, ast.Call) and isinstance(x.func, (ast.Name, ast.Attribute)):
                try:
                    obj = self.resolve(x.func)
                except Untranslatable:
                    obj = None
                if isinstance(obj, type) and issubclass(obj, BaseException):
                    return "(.raise_ (.mkExc %s))" % self.cls(x.func)     # message text dropped
            return "(.raise_ %s)" % self.expr(x)
        if isinstance(s, ast.Break):
            return ".brk"
        if isinstance(s, ast.Continue):
            return ".cont"
        if isinstance(s, ast.Pass):
            return ".skip"
        raise Untranslatable("statement %s" % ast.unparse(s).splitlines()[0])

    def bytes_typed(self, e):
        """syntactically certain to be a bytes value: a bytes literal / constant, b"".join(..), or a sum with such an operand"""
        if self.is_bytes(e):
            return True
        if isinstance(e, ast.Call) and isinstance(e.func, ast.Attribute) and e.func.attr == "join" \
                and isinstance(e.func.value, ast.Constant) and isinstance(e.func.value.value, bytes):
            return True
        return isinstance(e, ast.BinOp) and isinstance(e.op, ast.Add) and (self.bytes_typed(e.left) or self.bytes_typed(e.right))

    def inline_expr_helper(self, call):
        """`_x(a)` inside an expression, where the module-level private helper `_x` is `return <expr>` only: that expression with
        the arguments substituted"""
        f = call.func
        if not (isinstance(f, ast.Name) and f.id.startswith("_") and f.id not in self.locals and inspect.isfunction(self.g.get(f.id))
                and not inspect.isgeneratorfunction(self.g.get(f.id))) or call.keywords:
            return None
        fd = ast.parse(textwrap.dedent(inspect.getsource(self.g[f.id]))).body[0]
        body = [b for b in fd.body if not (isinstance(b, ast.Expr) and isinstance(b.value, ast.Constant) and isinstance(b.value.value, str))]
        params = [a.arg for a in fd.args.args]
        if len(body) != 1 or not isinstance(body[0], ast.Return) or body[0].value is None or len(params) != len(call.args) \
                or fd.args.vararg or fd.args.kwarg or fd.args.kwonlyargs or not all(isinstance(a, (ast.Name, ast.Constant)) for a in call.args):
            return None
        ren = dict(zip(params, call.args))

        class R(ast.NodeTransformer):
            def visit_Name(self_inner, n):
                a = ren.get(n.id)
                return n if a is None else ast.copy_location(a, n)
        return R().visit(body[0].value)

    def struct_fields(self, fmt_node):
        fmt = self.resolve(fmt_node)
        if not (isinstance(fmt, str) and fmt.startswith("!")):
            raise Untranslatable("struct format %r" % (fmt,))
        import re as _re
        import struct as _struct
        flds = []
        for cnt, ch in _re.findall(r"(\d*)([a-zA-Z])", fmt[1:]):
            if ch == "s":
                flds.append(("raw", int(cnt or 1)))
            elif ch in "BHI" and not cnt:
                flds.append(("uint", {"B": 1, "H": 2, "I": 4}[ch]))
            else:
                raise Untranslatable("struct field %s%s" % (cnt, ch))
        if _struct.calcsize(fmt) != sum(n for _, n in flds):
            raise Untranslatable("struct format size")
        return flds

    def pack(self, target, call):
        """`target = struct.pack(fmt, a1, a2, ...)`: arguments that are `<e>.encode("ascii")` are evaluated into temporaries first, in
        order (the other arguments of the fragment cannot raise and have no effects, so the order of evaluation is kept)"""
        if not (ast.unparse(call.func) == "struct.pack" and self.g.get("struct") is __import__("struct") and call.args and not call.keywords):
            raise Untranslatable("call %s" % ast.unparse(call))
        flds = self.struct_fields(call.args[0])
        if len(flds) != len(call.args) - 1:
            raise Untranslatable("struct.pack argument count")
        pre, args = [], ".nil"
        terms = []
        for a in call.args[1:]:
            if isinstance(a, ast.Call) and isinstance(a.func, ast.Attribute) and a.func.attr == "encode" and len(a.args) == 1 \
                    and isinstance(a.args[0], ast.Constant) and a.args[0].value == "ascii" and not a.keywords:
                t = "t%d" % self.tmp
                self.tmp += 1
                pre.append("(.encodeAscii %s %s)" % (q(t), self.expr(a.func.value)))
                terms.append("(.var %s)" % q(t))
            else:
                terms.append(self.expr(a))
        for (kind, n), t in reversed(list(zip(flds, terms))):
            args = "(.cons (.%s %d) %s %s)" % (kind, n, t, args)
        out = "(.packInto %s %s)" % (q(target), args)
        for pterm in reversed(pre):
            out = "(.seq %s %s)" % (pterm, out)
        return out

    def is_pack(self, v):
        return isinstance(v, ast.Call) and ast.unparse(v.func) == "struct.pack"

    def is_bytes(self, e):
        return (isinstance(e, ast.Constant) and isinstance(e.value, bytes)) or \
            (isinstance(e, ast.Name) and e.id not in self.locals and type(self.g.get(e.id)) is bytes)

    def nm(self, name):
        return getattr(self, "rename", {}).get(name, name)

    def target(self, t):
        if isinstance(t, ast.Name):
            return self.nm(t.id)
        if isinstance(t, ast.Attribute) and isinstance(t.value, ast.Name) and t.value.id == "self":
            return "self." + t.attr
        raise Untranslatable("assignment target %s" % ast.unparse(t))

    def function(self, name, params, owner=None, lenient=False):
        """lenient: a leaf statement outside the fragment becomes `.unsupported` (running it is `stuck`) instead of
        refusing the whole function - for code that the theorem's hypotheses make unreachable"""
        self.lenient = lenient
        self.owner = owner
        fn = getattr(owner or self.m, name)
        tree = ast.parse(textwrap.dedent(inspect.getsource(fn)))
        fd = tree.body[0]
        self.locals = {a.arg for a in fd.args.args} | {n.id for n in ast.walk(fd) if isinstance(n, ast.Name) and isinstance(n.ctx, ast.Store)} \
            | {h.name for h in ast.walk(fd) if isinstance(h, ast.ExceptHandler) and h.name}
        self.rename = {}
        self.tmp = 0
        # splice private helpers in first, everywhere (so that moving code into a helper changes nothing) ...
        fd.body = self.expand_all(fd.body)
        # ... then canonical names: parameter k -> "p<k>", locals -> "v<k>" in the order in which the (expanded) source first
        # binds them, so that renaming a local (or a parameter) does not change the transcription
        self.rename = {a.arg: "p%d" % k for k, a in enumerate(fd.args.args) if a.arg not in ("self", self.sock)}

        def preorder(node):
            yield node
            for ch in ast.iter_child_nodes(node):
                yield from preorder(ch)
        for n in preorder(fd):
            name = n.id if (isinstance(n, ast.Name) and isinstance(n.ctx, ast.Store)) else \
                (n.name if (isinstance(n, ast.ExceptHandler) and n.name) else None)
            if name is not None and name not in self.rename:
                self.rename[name] = "v%d" % sum(1 for v in self.rename.values() if v.startswith("v"))
        return self.block(fd.body)

    def subclass_table(self):
        rows = []
        for c, cn in self.classes:
            for d, dn in self.classes:
                rows.append("  | .%s, .%s => %s" % (cn, dn, "true" if issubclass(c, d) else "false"))
        return "def isSub : Cls → Cls → Bool\n" + "\n".join(rows)


def wrap(term, width=110):
    """break a long one-line term at spaces (Lean does not care)"""
    out, line = [], ""
    for tok in term.split(" "):
        if len(line) + len(tok) + 1 > width:
            out.append(line)
            line = "  " + tok
        else:
            line = (line + " " + tok) if line else tok
    out.append(line)
    return "\n  ".join(out)
