"""Run every property module's extractor (used by setup.sh so that the first build sees current facts)."""
import importlib, os, sys, glob, traceback
sys.path.insert(0, os.path.dirname(os.path.abspath(__file__)))
import common
common.repo_on_path()
rc = 0
import json
claimed = {c["property_id"].lower() for c in json.load(open(os.path.join(common.VERIF, "MANIFEST.json")))["checks"]}
for f in sorted(glob.glob(os.path.join(os.path.dirname(os.path.abspath(__file__)), "props", "c[0-9][0-9].py"))):
    pid = os.path.basename(f)[:-3]
    if pid not in claimed:
        continue
    try:
        mod = importlib.import_module("props." + pid)
        text = mod.extract()
        if text is not None:
            common.write_if_changed(os.path.join(common.LEAN, "PyroModel", "Gen", pid.upper() + ".lean"), text)
    except Exception:
        traceback.print_exc()
        rc = 1
sys.exit(rc)
