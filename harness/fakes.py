"""Scripted stand-ins for the operating system: sockets whose every call follows a script."""
import errno
import socket


class ScriptEnd(BaseException):
    """the environment script ran out (escapes every `except Exception` / `except OSError`)"""


class ScriptedSocket:
    """
    One script event per recv/send/sendall call:
      ("d", k)  deliver / accept at most k bytes      ("r", errno)  retryable OSError
      ("f", errno) fatal OSError                       ("t",) socket.timeout
      ("p", k, errno) sendall: transmit k bytes, then raise OSError(errno); recv/send: plain OSError(errno)
    """

    def __init__(self, stream=b"", script=(), timeout=None):
        self.stream = bytes(stream)
        self.pos = 0
        self.script = list(script)
        self.idx = 0
        self.accepted = bytearray()
        self.timeout = timeout
        self.calls = []
        self.trace = []      # per call: "d" transferred, "eof" recv gave b'' for n > 0, "r"/"f"/"t" raised, ("p" counts as "r" or "f")

    def _next(self):
        # every call on a socket with a timeout T may legitimately take any time below T: the fake clock moves by 0.7 T
        if self.timeout:
            CLOCK[0] += 0.7 * self.timeout
        if self.idx >= len(self.script):
            raise ScriptEnd()
        ev = self.script[self.idx]
        self.idx += 1
        return ev

    def _raise(self, ev):
        self.trace.append(ev[0] if ev[0] != "p" else ("r" if (len(ev) > 3 and ev[3]) else "f"))
        if ev[0] == "r":
            raise OSError(ev[1], "scripted retryable")
        if ev[0] == "f":
            raise OSError(ev[1], "scripted fatal")
        if ev[0] == "t":
            raise socket.timeout("scripted timeout")
        if ev[0] == "p":
            raise OSError(ev[2], "scripted error")
        raise AssertionError(ev)

    def recv(self, n, flags=0):
        self.calls.append(("recv", n, flags))
        ev = self._next()
        if ev[0] == "d":
            k = min(ev[1], n)
            chunk = self.stream[self.pos:self.pos + k]
            self.pos += len(chunk)
            self.trace.append("eof" if (n > 0 and not chunk) else "d")
            return chunk
        self._raise(ev)

    def send(self, data):
        self.calls.append(("send", len(data)))
        ev = self._next()
        if ev[0] == "d":
            k = min(ev[1], len(data))
            self.accepted += bytes(data[:k])
            self.trace.append("d")
            return k
        self._raise(ev)

    def sendall(self, data):
        self.calls.append(("sendall", len(data)))
        ev = self._next()
        if ev[0] == "d":
            self.accepted += bytes(data)
            self.trace.append("d")
            return None
        if ev[0] == "p":
            self.accepted += bytes(data[:ev[1]])
        self._raise(ev)

    def gettimeout(self):
        return self.timeout

    def left(self):
        return len(self.script) - self.idx


CLOCK = [1000.0]     # the fake clock that code under test reads through NoSleep (advanced by scripted socket calls and by sleeps)


class NoSleep:
    """replacement for the `time` module inside Pyro5.socketutil: back-off sleeps cost no real time; whoever reads the clock
    (the unchanged functions do not) sees the fake clock, on which every socket call and every sleep takes its time"""
    def __init__(self, real):
        self._real = real
        self.slept = []

    def sleep(self, d):
        self.slept.append(d)
        CLOCK[0] += max(0.0, float(d))

    def monotonic(self):
        return CLOCK[0]

    def time(self):
        return CLOCK[0]

    def perf_counter(self):
        return CLOCK[0]

    def __getattr__(self, name):
        return getattr(self._real, name)


# every errno the source's own comment calls unrecoverable (EPERM, ENOBUFS, EMFILE) plus the usual connection-lost ones
FATAL_ERRNOS = [errno.ECONNRESET, errno.EPIPE, errno.ECONNABORTED, errno.EBADF, errno.ENOTCONN, errno.EPERM,
                errno.ENOBUFS, errno.EMFILE, errno.ENFILE, errno.ENOMEM, errno.EHOSTUNREACH, errno.ENETDOWN,
                errno.ENETUNREACH, errno.ENETRESET, errno.ECONNREFUSED, errno.ESHUTDOWN, errno.EIO, errno.EINVAL, errno.EFAULT,
                errno.ENOTSOCK, errno.EOPNOTSUPP, errno.EMSGSIZE, errno.EDESTADDRREQ, errno.EALREADY, errno.EISCONN]
