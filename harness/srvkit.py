"""
Server rig: the REAL Daemon with the REAL transport code (thread-pool server: ClientConnectionJob run by
the real Pool; multiplex server: SocketServer_Multiplex.events) driven over in-memory sockets, one
*item* at a time, so that histories over several connections are deterministic.

Items (what the peer does next on a connection) are rendered to bytes with the real encoder:
  ("msg", {type, ser, seq, oneway, body})   body = ("undecodable",) | ("handshake", wellformed, objknown, validator)
                                                 | ("call", target)      target = ("unknown",) | ("refused",) | ("method", spec)
  ("garbage", variant) | ("cut", offset_fraction, base_item) | ("timeout",)
Used by C08, C13, C12, C05.
"""
import errno
import os
import shutil
import socket
import tempfile
import threading
import time

import common

common.repo_on_path()

WAIT = 20.0


class Stuck(Exception):
    pass


class Blocked(BaseException):
    """a recv() that a real socket would never return from: the peer is silent and no timeout is set on the socket
    (BaseException: no handler of the code under test may swallow it)"""


class FakeSock:
    """in-memory server-side socket: the harness feeds inbound bytes and finally an ending"""

    def __init__(self, index):
        self.index = index
        self.inbound = bytearray()
        self.cond = threading.Condition()
        self.ending = None          # None | "eof" | "timeout" | "reset"
        self.sent = bytearray()
        self.closed = 0
        self.shutdowns = 0
        self.waiting = False
        self.timeout = None
        self.recv_calls = 0
        self.peername_fails = False
        self.strict_timeout = False     # True: a silent peer times out only if a timeout was set on this socket

    # -- harness side
    def feed(self, data):
        with self.cond:
            self.inbound += data
            self.cond.notify_all()

    def end(self, kind):
        with self.cond:
            self.ending = kind
            self.cond.notify_all()

    # -- socket API used by Pyro
    def recv(self, n, flags=0):
        self.recv_calls += 1
        with self.cond:
            t0 = time.time()
            while not self.inbound and self.ending is None and not self.closed:
                self.waiting = True
                self.cond.notify_all()
                if not self.cond.wait(timeout=WAIT) and time.time() - t0 > WAIT:
                    raise Stuck("recv on connection %d never satisfied" % self.index)
            self.waiting = False
            if self.inbound:
                chunk = bytes(self.inbound[:n])
                del self.inbound[:n]
                return chunk
            if self.closed:
                raise OSError(errno.EBADF, "closed")
            if self.ending == "eof":
                return b""
            if self.ending == "timeout":
                if self.strict_timeout and not self.timeout:
                    raise Blocked("connection %d: the peer is silent and no timeout is set on the accepted socket" % self.index)
                raise socket.timeout("timed out")
            raise ConnectionResetError(errno.ECONNRESET, "reset by peer")

    def send(self, data):
        if self.closed:
            raise OSError(errno.EBADF, "closed")
        self.sent += bytes(data)
        return len(data)

    def sendall(self, data):
        self.send(data)

    def gettimeout(self):
        return self.timeout

    def settimeout(self, t):
        self.timeout = t

    def setblocking(self, b):
        pass

    def getpeername(self):
        if self.peername_fails:
            raise OSError(errno.ENOTCONN, "Transport endpoint is not connected")
        return ("fake", self.index)

    def getsockname(self):
        return ("fake-server", 0)

    def shutdown(self, how):
        self.shutdowns += 1

    def close(self):
        with self.cond:
            self.closed += 1
            self.cond.notify_all()

    def fileno(self):
        return 1000 + self.index

    family = socket.AF_INET


class FakeListener:
    def __init__(self):
        self.queue = []
        self.timeout = None

    def settimeout(self, t):
        self.timeout = t

    def gettimeout(self):
        return self.timeout

    def accept(self):
        s = self.queue.pop(0)
        return s, ("fake", s.index)

    def getsockname(self):
        return ("fake-server", 0)

    def close(self):
        pass

    def fileno(self):
        return 999


class FakeSelector:
    def __init__(self):
        self.map = {}
        self.log = []

    def register(self, fileobj, events, data=None):
        if id(fileobj) in self.map:
            raise KeyError("already registered")
        self.map[id(fileobj)] = fileobj
        self.log.append(("reg", fileobj))

    def unregister(self, fileobj):
        del self.map[id(fileobj)]
        self.log.append(("unreg", fileobj))

    def get_map(self):
        return dict(self.map)

    def select(self, timeout=None):
        return []

    def close(self):
        pass


class Resource:
    def __init__(self, rid):
        self.rid = rid
        self.closes = 0

    def close(self):
        self.closes += 1
        if self.rid % 3 == 0:
            raise RuntimeError("resource %d fails to close" % self.rid)     # close() of a resource may raise

    def __len__(self):
        # a resource may well be an (as yet) empty container: every other one is falsy when it is tracked
        return self.rid % 2


class Rig:
    def __init__(self, servertype, poolsize=8, session_class=True, linger=None, commtimeout=0.0):
        from Pyro5 import config, server, errors, callcontext
        self._saved_linger = config.ITER_STREAM_LINGER
        if linger is not None:
            config.ITER_STREAM_LINGER = linger
        self.servertype = servertype
        self.saved = (config.SERVERTYPE, config.THREADPOOL_SIZE, config.THREADPOOL_SIZE_MIN, config.COMMTIMEOUT,
                      config.SERIALIZER, config.ITER_STREAMING, config.MAX_MESSAGE_SIZE, config.LOGWIRE)
        config.SERVERTYPE = servertype
        config.THREADPOOL_SIZE = poolsize
        config.THREADPOOL_SIZE_MIN = min(poolsize, 2)
        config.COMMTIMEOUT = commtimeout      # > 0: sockets are "strict" (see FakeSock.strict_timeout)
        self.commtimeout = commtimeout
        self.tmp = tempfile.mkdtemp(prefix="srvkit")
        rig = self
        self.execs = []            # (conn index, token) in execution order
        self.contexts = []         # (conn index, token, context snapshot)
        self.hooks = {}            # conn index -> count
        self.resources = {}
        self.socks = []
        self.conns = {}            # index -> SocketConnection (when known)
        self.started = {}
        self.lock = threading.Lock()
        self.oneway_done = threading.Condition()
        self.oneway_pending = 0

        self.tls = threading.local()
        self.ann_gates = {}        # conn index -> gate key: that connection's handler waits inside Daemon.annotations() once

        class RigDaemon(server.Daemon):
            def _handshake(self, conn, denied_reason=None):
                rig.tls.hs_idx = getattr(getattr(conn, "sock", None), "index", None)
                rig.tls.hs_validated = False
                try:
                    return super()._handshake(conn, denied_reason)
                finally:
                    rig.tls.hs_idx = None

            def validateHandshake(self, conn, data):
                rig.tls.conn_idx = conn.sock.index
                if data == "raise":
                    raise ValueError("validator says no")
                if data == "secraise":
                    raise errors.SecurityError("validator security")
                if data == "unser":
                    rig.tls.hs_validated = True
                    return threading.Lock()
                rig.conns[conn.sock.index] = conn
                rig.tls.hs_validated = True
                return "hello"

            def clientDisconnect(self, conn):
                idx = conn.sock.index
                rig.hooks[idx] = rig.hooks.get(idx, 0) + 1
                if idx in rig.hook_raises:
                    raise RuntimeError("user disconnect hook fails for connection %d" % idx)

            def annotations(self):
                # the daemon calls this hook while it builds a reply: a history may hold one connection's handler here
                k = rig.ann_gates.pop(getattr(rig.tls, "conn_idx", None), None)
                if k is not None:
                    rig.gate_threads.setdefault(k, []).append(threading.current_thread())
                    rig.gated.add(threading.current_thread())
                    rig.gate(k).wait(WAIT)
                    rig.gated.discard(threading.current_thread())
                # an application may keep its annotations in one long-lived dict and return that very object every time
                return rig.daemon_annotations if rig.persistent_annotations else dict(rig.daemon_annotations)

        self.daemon_annotations = {}
        self.persistent_annotations = False
        self.hook_raises = set()
        self.gates = {}
        self.gated = set()
        self.gate_threads = {}
        self._orig_oneway_run = server._OnewayCallThread.run

        def delayed_run(thread_self):
            # a history may delay the START of a oneway thread (before it copies the context back in)
            try:
                spec = thread_self.pyro_vargs[0]
                g = spec.get("startgate") if isinstance(spec, dict) else None
            except Exception:
                g = None
            if g is not None:
                rig.gate_threads.setdefault(g, []).append(threading.current_thread())
                rig.gated.add(threading.current_thread())
                rig.gate(g).wait(WAIT)
                rig.gated.discard(threading.current_thread())
            return rig._orig_oneway_run(thread_self)
        server._OnewayCallThread.run = delayed_run
        self.daemon = RigDaemon(unixsocket=os.path.join(self.tmp, "sock"))
        # the daemon's own registered object ("Pyro.Daemon"): its methods are methods of a registered object like any other - none
        # may run for a connection whose handshake the validator has not accepted (yet)
        from Pyro5 import core as _core
        self.premature = []        # (conn index, method) run during a handshake before the validator accepted
        dobj = self.daemon.objectsById[_core.DAEMON_NAME]
        for mname in ("get_metadata", "registered", "info", "ping", "get_next_stream_item", "close_stream"):
            orig = getattr(dobj, mname, None)
            if orig is None:
                continue

            def wrapped(*a, _orig=orig, _m=mname, **kw):
                if getattr(rig.tls, "hs_idx", None) is not None and not getattr(rig.tls, "hs_validated", False):
                    rig.premature.append((rig.tls.hs_idx, _m))
                return _orig(*a, **kw)
            for tag in ("_pyroExposed", "_pyroOneway", "_pyroCallback", "__name__", "__doc__"):
                if hasattr(orig, tag):
                    try:
                        setattr(wrapped, tag, getattr(orig, tag))
                    except (AttributeError, TypeError):
                        pass
            try:
                setattr(dobj, mname, wrapped)
            except AttributeError:
                pass
        self.errors = errors
        self.ctx = callcontext.current_context

        def perform(spec, kind):
            conn = rig.ctx.client
            idx = conn.sock.index if conn is not None else -1
            with rig.lock:
                rig.execs.append((idx, spec["token"]))
                rig.contexts.append((idx, spec["token"], {
                    "seq": rig.ctx.seq, "flags": rig.ctx.msg_flags, "ser": rig.ctx.serializer_id,
                    "ann": sorted(rig.ctx.annotations.keys()), "corr": (rig.ctx.correlation_id.int if rig.ctx.correlation_id else None),
                    "peer": rig.ctx.client_sock_addr}))
            if "release_during" in spec:
                # let a gated oneway method of an earlier request write NOW, while this request is being handled
                rig.gate(spec["release_during"]).set()
                t0 = time.time()
                while any(t.is_alive() for t in list(rig.gate_threads.get(spec["release_during"], []))):
                    time.sleep(0.0005)
                    if time.time() - t0 > WAIT:
                        raise Stuck("gated oneway method did not finish")
            if "gate" in spec:
                rig.gate_threads.setdefault(spec["gate"], []).append(threading.current_thread())
                ev = rig.gate(spec["gate"])
                rig.gated.add(threading.current_thread())
                ev.wait(WAIT)
                rig.gated.discard(threading.current_thread())
            for k in spec.get("ann", []):
                if spec.get("annmode", "set") == "mutate":
                    rig.ctx.response_annotations["A%03d" % k] = b"v"
                else:
                    d = dict(rig.ctx.response_annotations)
                    d["A%03d" % k] = b"v"
                    rig.ctx.response_annotations = d
            for r in spec.get("track", []):
                rig.ctx.track_resource(rig.resource(r))
            for r in spec.get("untrack", []):
                rig.ctx.untrack_resource(rig.resource(r))
            for k in spec.get("mutreq", []):
                rig.ctx.annotations["X%03d" % k] = b"m"      # a method may scribble on the request annotations it was given
            out = spec.get("out", "ret")
            if out == "stream":
                return (i for i in range(3))                  # an item stream stays open on the connection
            if out == "ret":
                return spec["token"]
            if out == "retbad":
                return threading.Lock()
            exc = spec.get("exc", "generic")
            cls = {"generic": ValueError, "serialize": errors.SerializeError, "connClosed": errors.ConnectionClosedError,
                   "commOther": errors.TimeoutError, "security": errors.SecurityError}[exc]
            e = cls("boom %d" % spec["token"])
            if not spec.get("ser", True):
                e.unserialisable = threading.Lock()
            raise e

        @server.expose
        class Target(object):
            def run(self, spec):
                return perform(spec, "run")

            @server.oneway
            def runoneway(self, spec):
                return perform(spec, "oneway")

            @server.callback
            def cb(self, spec):
                return perform(spec, "cb")

            def _hidden(self, spec):
                return perform(spec, "hidden")

        Target.unexposed = lambda self, spec: perform(spec, "unexposed")
        self.Target = Target
        self.daemon.register(Target(), "target")

        @server.behavior(instance_mode="session")
        class SessTarget(Target):
            pass
        self.daemon.register(SessTarget, "sess")
        self._classes = [Target, SessTarget]
        if servertype == "multiplex":
            srv = self.daemon.transportServer
            self.real_selector = srv.selector
            self.real_sock = srv.sock
            self.listener = FakeListener()
            self.selector = FakeSelector()
            srv.selector = self.selector
        self.jobs = {}

    def gate(self, k):
        with self.lock:
            if k not in self.gates:
                self.gates[k] = threading.Event()
            return self.gates[k]

    def release(self, k):
        """let the gated (oneway) method `k` continue, and wait until it is through"""
        self.gate(k).set()
        t0 = time.time()
        while any(t.is_alive() for t in list(self.gate_threads.get(k, []))):
            time.sleep(0.0005)
            if time.time() - t0 > WAIT:
                raise Stuck("released oneway method did not finish")
        self._wait_oneway()

    def _forget_types(self):
        """Daemon.register() leaves a per-type serializer hook and cache entries behind for every registered class;
        thousands of short-lived rigs would make every later run slower"""
        import serpent
        from Pyro5 import serializers, server
        for c in getattr(self, "_classes", []):
            try:
                serpent.unregister_class(c)
            except Exception:
                pass
            for only_exposed in (True, False):
                try:
                    server._reset_exposed_members(c, only_exposed)
                except Exception:
                    pass
            for ser in (serializers.JsonSerializer, serializers.MsgpackSerializer):
                for name, val in vars(ser).items():
                    if name.endswith("__type_replacements") and isinstance(val, dict):
                        val.pop(c, None)

    def resource(self, rid):
        with self.lock:
            if rid not in self.resources:
                self.resources[rid] = Resource(rid)
            return self.resources[rid]

    # ------------------------------------------------------------------------------------------
    def deliver(self, idx, data, ending=None, peername_fails=False):
        """the peer of connection idx sends `data` and then (optionally) ends the connection"""
        while len(self.socks) <= idx:
            self.socks.append(FakeSock(len(self.socks)))
            self.socks[-1].strict_timeout = bool(self.commtimeout)
        s = self.socks[idx]
        s.peername_fails = peername_fails
        first = idx not in self.started
        s.feed(data)
        if ending:
            s.end(ending)
        if self.servertype == "thread":
            from Pyro5 import svr_threads
            if first:
                self.started[idx] = True
                from Pyro5 import config as _cfg
                if _cfg.COMMTIMEOUT:
                    s.settimeout(_cfg.COMMTIMEOUT)      # what the accept loop (which this rig stands in for) does
                job = svr_threads.ClientConnectionJob(s, ("fake", idx), self.daemon)
                done = threading.Event()
                self.jobs[idx] = done
                orig = job.__call__

                class J:
                    def __call__(self_inner):
                        try:
                            job()
                        finally:
                            done.set()
                self.daemon.transportServer.pool.process(J())
            self._wait_thread(idx)
        else:
            srv = self.daemon.transportServer
            if first:
                self.started[idx] = True
                self.listener.queue.append(s)
                srv.sock = self.listener
                try:
                    srv.events([self.listener])
                finally:
                    srv.sock = self.real_sock
            else:
                # one event per pending message: keep signalling while data is buffered and the connection is registered
                guard = 0
                while True:
                    conn = self._mux_conn(idx)
                    if conn is None:
                        break
                    if not s.inbound and not (s.ending and not getattr(s, "_ending_seen", False)):
                        break
                    if not s.inbound and s.ending:
                        s._ending_seen = True
                    srv.events([conn])
                    guard += 1
                    if guard > 1000:
                        raise Stuck("multiplex events loop")
            if first:
                # remaining pipelined data behind the first message
                if self._mux_conn(idx) is not None and (s.inbound or s.ending):
                    self.deliver(idx, b"")
        self._wait_oneway()

    def _mux_conn(self, idx):
        for c in self.selector.map.values():
            if getattr(getattr(c, "sock", None), "index", None) == idx:
                return c
        return None

    def _wait_thread(self, idx):
        s = self.socks[idx]
        done = self.jobs[idx]
        t0 = time.time()
        with s.cond:
            while True:
                if done.is_set():
                    return
                if s.waiting and not s.inbound and s.ending is None:
                    return
                s.cond.wait(timeout=0.01)
                if time.time() - t0 > WAIT:
                    raise Stuck("connection %d did not become idle" % idx)

    def _wait_oneway(self):
        """oneway calls run in their own threads (name 'oneway-call'): wait until they are through"""
        t0 = time.time()
        while True:
            busy = [t for t in threading.enumerate() if t.name == "oneway-call" and t.is_alive() and t not in self.gated]
            if not busy:
                return
            time.sleep(0.0005)
            if time.time() - t0 > WAIT:
                raise Stuck("oneway thread did not finish")

    # ------------------------------------------------------------------------------------------
    def replies(self, idx):
        """messages the daemon sent on connection idx: (type, seq, serializer, is-exception, annotation keys, flags)"""
        from Pyro5 import protocol
        if idx >= len(self.socks):
            return []
        data = bytes(self.socks[idx].sent)
        out = []
        pos = 0
        while pos + 40 <= len(data):
            hdr = data[pos:pos + 40]
            dsz = int.from_bytes(hdr[12:16], "big")
            asz = int.from_bytes(hdr[16:20], "big")
            m = protocol.ReceivingMessage(hdr, data[pos + 40:pos + 40 + dsz + asz])
            out.append((m.type, m.seq, m.serializer_id, bool(m.flags & protocol.FLAGS_EXCEPTION),
                        sorted(m.annotations.keys()), m.flags, bytes(m.data)))
            pos += 40 + dsz + asz
        return out

    def collect_garbage(self):
        """drop the harness's own references to connection objects and let the collector run their __del__
        (a second close() must close nothing again)"""
        import gc
        self.conns.clear()
        self.ctx.client = None
        gc.collect()

    def observe(self, idx):
        s = self.socks[idx] if idx < len(self.socks) else None
        conn = self.conns.get(idx)
        registered = None
        if self.servertype == "multiplex":
            registered = self._mux_conn(idx) is not None
        return {
            "replies": [(r[0], r[1], r[2], r[3]) for r in self.replies(idx)],
            "execs": [t for i, t in self.execs if i == idx],
            "premature": [m for i, m in self.premature if i == idx],
            "hook": self.hooks.get(idx, 0),
            "sockclosed": (s.closed if s else 0),
            "registered": registered,
            "job_done": (self.jobs[idx].is_set() if idx in self.jobs else None),
            "session_empty": (len(conn.pyroInstances) == 0) if conn is not None else True,
            "tracked_left": (len(conn.tracked_resources) if conn is not None else 0),
        }

    def pool_accounting(self):
        if self.servertype != "thread":
            return None
        p = self.daemon.transportServer.pool
        return (len(p.busy), len(p.idle))

    def close(self):
        from Pyro5 import config
        try:
            for ev in list(self.gates.values()):
                ev.set()
            for s in self.socks:
                s.end("eof")
            if self.servertype == "thread":
                for idx, done in self.jobs.items():
                    done.wait(timeout=5)
            if self.servertype == "multiplex":
                self.daemon.transportServer.selector = self.real_selector
            self.daemon.close()
            self._forget_types()
        finally:
            from Pyro5 import server as _server
            config.ITER_STREAM_LINGER = self._saved_linger
            _server._OnewayCallThread.run = self._orig_oneway_run
            (config.SERVERTYPE, config.THREADPOOL_SIZE, config.THREADPOOL_SIZE_MIN, config.COMMTIMEOUT,
             config.SERIALIZER, config.ITER_STREAMING, config.MAX_MESSAGE_SIZE, config.LOGWIRE) = self.saved
            shutil.rmtree(self.tmp, ignore_errors=True)


# ---- rendering items to bytes ------------------------------------------------------------------
SER_NAMES = {1: "serpent", 2: "marshal", 3: "json", 4: "msgpack"}


def render_msg(m):
    """m: dict(type, ser, seq, oneway, body) -> bytes of a complete message"""
    from Pyro5 import protocol, serializers
    ser = serializers.serializers_by_id.get(m["ser"])
    body = m["body"]
    flags = protocol.FLAGS_ONEWAY if m.get("oneway") else 0
    if ser is not None and body[0] == "undecodable" and len(body) > 1 and body[1] == "security":
        # decodes up to a class dict whose tag contains a double underscore: dict_to_class raises SecurityError
        payload = ser.dumpsCall("target", "run", ({"__class__": "evil__tag"},), {})
    elif ser is None or body[0] == "undecodable":
        payload = b"\xff\xfe\x00garbage-payload\x01"
    elif body[0] == "handshake":
        _, wf, objknown, val = body
        if wf:
            d = {"handshake": {"accept": "accept", "raises": "raise", "unser": "unser"}[val],
                 "object": "target" if objknown else "nosuchobject"}
            # extra members a peer may add to the handshake payload never change the decision
            d.update(m.get("extra") or {})
            payload = ser.dumps(d)
        else:
            payload = ser.dumps(["not", "a", "handshake"])
    else:
        t = body[1]
        if t[0] == "unknown":
            payload = ser.dumpsCall("nosuchobject", "run", ({"token": 0},), {})
        elif t[0] == "refused":
            payload = ser.dumpsCall("target", t[1] if len(t) > 1 else "_hidden", ({"token": 0},), {})
        else:
            spec = t[1]
            name = "cb" if spec.get("callback") else ("runoneway" if m.get("oneway") else "run")
            payload = ser.dumpsCall("sess" if spec.get("session") else "target", name, (spec,), {})
    ann = {k: b"rq" for k in m.get("ann", [])}
    from Pyro5.callcontext import current_context
    import uuid
    old = current_context.correlation_id
    current_context.correlation_id = uuid.UUID(int=m["corr"]) if m.get("corr") else None
    try:
        return bytes(protocol.SendingMessage(m["type"], flags, m["seq"], m["ser"], payload, annotations=ann).data)
    finally:
        current_context.correlation_id = old


GARBAGE = [b"GET / HTTP/1.0\r\n\r\n" + b"x" * 40,
           b"PYRO\x00\x01" + b"\0" * 34,                                   # wrong version
           b"PYRO\x01\xf6\x04\x02\0\0\0\x01\0\0\0\x02\0\0\0\0" + b"\0" * 16 + b"\0\0\x12\x34" + b"ab",   # bad magic
           b"PYRO\x01\xf6\x04\x02\0\0\0\x01\x7f\xff\xff\xff\0\0\0\0" + b"\0" * 16 + b"\0\0\x4d\xc5",     # oversize
           b"\0" * 64]
