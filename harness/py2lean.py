"""
A small Python -> Lean 4 translator for the *pure, loop-free* predicates of the code base (the first kind of tie the
brief allows: the Lean definition is regenerated from the source on every run, so a theorem about it is a theorem about
what the code says now).  Subset: a function whose body is a sequence of `if <cond>: return <expr>` / `if ..: ... else: ...`
/ `return <expr>` / `name = <expr>` statements over str / int / bool values with
    and, or, not, ==, !=, <, <=, >, >=, in / not in (module-level constant collections of str),
    len(x), x.startswith(lit), x.endswith(lit), integer + - *, literals, parameters and local names.
Strings are code-point lists (List Nat), ints are Int, booleans Bool.  Anything outside the subset raises
Untranslatable: the extractor then fails, which the runner reports as a broken tie (never silently).
"""
import ast


class Untranslatable(Exception):
    pass


def lit_str(s):
    return "[" + ", ".join(str(ord(c)) for c in s) + "]"


class T:
    def __init__(self, module, prefix=""):
        self.module = module            # python module object (for module-level constants)
        self.prefix = prefix
        self.tables = {}                # constant collections referenced: lean name -> sorted items

    def const_collection(self, name):
        v = getattr(self.module, name, None)
        if isinstance(v, (frozenset, set, list, tuple)) and all(isinstance(x, str) for x in v):
            return sorted(v)
        raise Untranslatable("name %s is not a constant collection of str" % name)

    def expr(self, e, env):
        """returns (lean_text, type) with type in {'str','int','bool'}"""
        if isinstance(e, ast.Constant):
            if isinstance(e.value, bool):
                return ("true" if e.value else "false"), "bool"
            if isinstance(e.value, int):
                return "(%d : Int)" % e.value, "int"
            if isinstance(e.value, str):
                return "(%s : List Nat)" % lit_str(e.value), "str"
            raise Untranslatable("constant %r" % (e.value,))
        if isinstance(e, ast.Name):
            if e.id in env:
                return e.id, env[e.id]
            raise Untranslatable("free name %s" % e.id)
        if isinstance(e, ast.BoolOp):
            parts = [self.expr(v, env) for v in e.values]
            if any(t != "bool" for _, t in parts):
                raise Untranslatable("and/or on non-bool operands")
            op = " && " if isinstance(e.op, ast.And) else " || "
            return "(" + op.join(p for p, _ in parts) + ")", "bool"
        if isinstance(e, ast.UnaryOp) and isinstance(e.op, ast.Not):
            x, t = self.expr(e.operand, env)
            if t != "bool":
                raise Untranslatable("not on non-bool")
            return "(!%s)" % x, "bool"
        if isinstance(e, ast.Compare) and len(e.ops) == 1:
            op = e.ops[0]
            if isinstance(op, (ast.In, ast.NotIn)):
                x, t = self.expr(e.left, env)
                c = e.comparators[0]
                if t == "str" and isinstance(c, ast.Name):
                    items = self.const_collection(c.id)
                    tname = "%s_tbl_%s" % (self.prefix, c.id.strip("_"))
                    self.tables[tname] = items
                    r = "(List.contains %s %s)" % (tname, x)
                    return (r if isinstance(op, ast.In) else "(!%s)" % r), "bool"
                raise Untranslatable("in on unsupported operands")
            l, lt = self.expr(e.left, env)
            r, rt = self.expr(e.comparators[0], env)
            if lt != rt:
                raise Untranslatable("comparison of %s with %s" % (lt, rt))
            sym = {ast.Eq: "==", ast.NotEq: "!=", ast.Lt: "<", ast.LtE: "<=", ast.Gt: ">", ast.GtE: ">="}.get(type(op))
            if sym is None or (lt != "int" and sym not in ("==", "!=")):
                raise Untranslatable("comparison operator")
            if sym in ("==", "!="):
                return "(%s %s %s)" % (l, sym, r), "bool"
            return "(decide (%s %s %s))" % (l, sym, r), "bool"
        if isinstance(e, ast.Call):
            if isinstance(e.func, ast.Name) and e.func.id == "len" and len(e.args) == 1:
                x, t = self.expr(e.args[0], env)
                if t != "str":
                    raise Untranslatable("len of non-str")
                return "(Int.ofNat (List.length %s))" % x, "int"
            if isinstance(e.func, ast.Attribute) and e.func.attr in ("startswith", "endswith") and len(e.args) == 1:
                x, t = self.expr(e.func.value, env)
                p, pt = self.expr(e.args[0], env)
                if t != "str" or pt != "str":
                    raise Untranslatable("startswith/endswith operands")
                fn = "Pyro.PyLib.startsWith" if e.func.attr == "startswith" else "Pyro.PyLib.endsWith"
                return "(%s %s %s)" % (fn, x, p), "bool"
            raise Untranslatable("call " + ast.unparse(e))
        if isinstance(e, ast.BinOp) and isinstance(e.op, (ast.Add, ast.Sub, ast.Mult)):
            l, lt = self.expr(e.left, env)
            r, rt = self.expr(e.right, env)
            if lt != "int" or rt != "int":
                raise Untranslatable("arithmetic on non-int")
            return "(%s %s %s)" % (l, {ast.Add: "+", ast.Sub: "-", ast.Mult: "*"}[type(e.op)], r), "int"
        raise Untranslatable("expression " + ast.unparse(e))

    def block(self, stmts, env, ret_type, indent):
        """translate a statement list that must end by returning on every path"""
        pad = "  " * indent
        if not stmts:
            raise Untranslatable("control reaches the end of the function without a return")
        st, rest = stmts[0], stmts[1:]
        if isinstance(st, ast.Expr) and isinstance(st.value, ast.Constant) and isinstance(st.value.value, str):
            return self.block(rest, env, ret_type, indent)            # docstring
        if isinstance(st, ast.Return):
            if st.value is None:
                raise Untranslatable("bare return")
            x, t = self.expr(st.value, env)
            if t != ret_type:
                raise Untranslatable("return type %s, expected %s" % (t, ret_type))
            return pad + x
        if isinstance(st, ast.Assign) and len(st.targets) == 1 and isinstance(st.targets[0], ast.Name):
            x, t = self.expr(st.value, env)
            env2 = dict(env)
            env2[st.targets[0].id] = t
            return pad + "let %s := %s\n" % (st.targets[0].id, x) + self.block(rest, env2, ret_type, indent)
        if isinstance(st, ast.If):
            c, t = self.expr(st.test, env)
            if t != "bool":
                raise Untranslatable("if on non-bool")
            # statements after the `if` are the continuation of every branch that does not return
            then_b = self.block(st.body + ([] if _returns(st.body) else rest), env, ret_type, indent + 1)
            else_src = (st.orelse + ([] if _returns(st.orelse) else rest)) if st.orelse else rest
            else_b = self.block(else_src, env, ret_type, indent + 1)
            return pad + "if %s then\n%s\n%selse\n%s" % (c, then_b, pad, else_b)
        raise Untranslatable("statement " + ast.unparse(st)[:80])


def _returns(stmts):
    """does every path through the statement list end in a return?"""
    if not stmts:
        return False
    last = stmts[-1]
    if isinstance(last, ast.Return):
        return True
    if isinstance(last, ast.If):
        return _returns(last.body) and bool(last.orelse) and _returns(last.orelse)
    return False


def translate_function(module, source, func_name, lean_name, param_types, ret_type="bool"):
    tree = ast.parse(source)
    fn = next((n for n in ast.walk(tree) if isinstance(n, ast.FunctionDef) and n.name == func_name), None)
    if fn is None:
        raise Untranslatable("function %s not found" % func_name)
    params = [a.arg for a in fn.args.args]
    if len(params) != len(param_types) or fn.args.vararg or fn.args.kwarg or fn.args.kwonlyargs:
        raise Untranslatable("signature of %s changed" % func_name)
    env = dict(zip(params, param_types))
    lean_t = {"str": "List Nat", "int": "Int", "bool": "Bool"}
    tr = T(module, lean_name)
    body = tr.block(fn.body, env, ret_type, 1)
    sig = " ".join("(%s : %s)" % (p, lean_t[t]) for p, t in zip(params, param_types))
    tables = "".join("/-- module-level constant collection referenced by `%s`, sorted -/\ndef %s : List (List Nat) := [%s]\n"
                     % (func_name, n, ",\n  ".join(lit_str(x) for x in items)) for n, items in sorted(tr.tables.items()))
    return tables + "/-- translated by harness/py2lean.py from `%s` (lines %d-%d) -/\ndef %s %s : %s :=\n%s\n" % (
        func_name, fn.lineno, fn.end_lineno, lean_name, sig, lean_t[ret_type], body)
