#!/venv/bin/python
"""
./check <ID> [--tier quick|thorough] [--replay FILE] [--seed N]

Decision procedure (DESIGN.md 2.4).  Exit 0 = property held on everything explored (KNOWN-FINDING
lines may be printed), 1 = VIOLATION line printed, 2 = harness error / timeout (never a verdict).
"""
import argparse
import importlib
import json
import os
import sys
import time
import traceback

sys.path.insert(0, os.path.dirname(os.path.abspath(__file__)))
import common  # noqa: E402
from common import Ctx, VERIF, LEAN  # noqa: E402


def main():
    ap = argparse.ArgumentParser()
    ap.add_argument("pid")
    ap.add_argument("--tier", default=os.environ.get("VERIF_TIER", "quick"))
    ap.add_argument("--seed", type=int, default=None)
    ap.add_argument("--replay", default=None)
    ap.add_argument("--skip-build", action="store_true", help="debugging only")
    args = ap.parse_args()
    pid = args.pid.upper()
    tier = args.tier if args.tier in ("quick", "thorough") else "quick"
    seed = args.seed if args.seed is not None else int(os.environ.get("VERIF_SEED", "0") or 0)
    common.repo_on_path()
    os.environ.setdefault("IRMEN_PYRO5_VERIF", "1")
    mod = importlib.import_module("props.%s" % pid.lower())
    ctx = Ctx(pid, tier, seed)

    if args.replay:
        case = json.load(open(args.replay))
        return mod.replay(ctx, case)

    broken = []   # names of proof obligations / correspondence suites that no longer check

    # ---------------- A: extract + build ------------------------------------------------
    model_ok = True
    try:
        gen_text = mod.extract()
        if gen_text is not None:
            common.write_if_changed(os.path.join(LEAN, "PyroModel", "Gen", "%s.lean" % pid), gen_text)
        ctx.oblige("extract:%s" % pid, True)
    except Exception as e:   # the extractor could not read the source shape it expects
        ctx.oblige("extract:%s" % pid, False, repr(e))
        broken.append("extractor: " + repr(e)[:300])
        ctx.notes.append("extractor failed: " + traceback.format_exc()[-1500:])
    if not args.skip_build:
        rc, log = common.lake_build(mod.LEAN_MODEL_TARGETS)
        if rc != 0:
            model_ok = False
            errs = common.failed_decls(log)
            broken.append("model build failed: " + "; ".join(errs[:5]))
            ctx.notes.append(log[-3000:])
        ctx.oblige("build:model " + " ".join(mod.LEAN_MODEL_TARGETS), rc == 0)
        rc, log = common.lake_build(mod.LEAN_PROOF_TARGETS)
        proof_ok = rc == 0
        if rc != 0:
            errs = common.failed_decls(log)
            names = []
            for e in errs:
                try:
                    path, line = e.split(":")[0], int(e.split(":")[1])
                    d = common.decl_at(path, line)
                    if d and d not in names:
                        names.append(d)
                except Exception:
                    pass
            broken.append("proof obligation no longer checks: " + ("; ".join(names) or "; ".join(errs[:5])))
            ctx.notes.append(log[-3000:])
        ctx.oblige("build:proofs " + " ".join(mod.LEAN_PROOF_TARGETS), proof_ok)
    else:
        proof_ok = True

    # thorough tier: the toolchain's independent re-checker replays the compiled proofs in the kernel
    if tier == "thorough" and proof_ok and not args.skip_build:
        try:
            rc, out = common.leanchecker([t for t in mod.LEAN_PROOF_TARGETS if t.startswith("Pyro")])
            ctx.oblige("leanchecker " + " ".join(mod.LEAN_PROOF_TARGETS), rc == 0, out[-300:])
            if rc != 0:
                broken.append("leanchecker rejects the compiled proofs: " + out[-300:])
        except common.subprocess.TimeoutExpired:
            ctx.notes.append("leanchecker timed out (not counted)")

    # ---------------- B: audit ----------------------------------------------------------
    hits = common.audit_sources(mod.AUDIT_FILES)
    ctx.oblige("audit:sources", not hits, "; ".join(hits[:5]))
    if hits:
        broken.append("forbidden construct in Lean sources: " + "; ".join(hits[:5]))
    if proof_ok:
        ok, axioms, alog = common.audit_axioms(pid, mod.LEAN_PROOF_TARGETS, mod.THEOREMS)
        ctx.axioms = axioms
        for t in mod.THEOREMS:
            ax = axioms.get(t)
            good = ax is not None and set(ax) <= common.ALLOWED_AXIOMS
            ctx.oblige("theorem:" + t, good, "axioms=%s" % ax)
            if not good:
                broken.append("theorem %s: missing or depends on axioms %s" % (t, ax))
    else:
        for t in mod.THEOREMS:
            ctx.oblige("theorem:" + t, False, "not built")

    # A mutated tree can make the real code hang (a leaked lock, a loop that does not end).  The runs below take
    # well under two minutes (quick) / an hour (thorough) on the tree the framework was built for; past the deadline
    # the run is cut, and "did not finish" is reported as a tie that no longer checks.
    deadline = common.Deadline(int(os.environ.get("VERIF_DEADLINE", "0") or 0) or (1200 if tier == "quick" else 3 * 3600))
    deadline.arm()

    # ---------------- C: correspondence -------------------------------------------------
    if model_ok:
        try:
            mod.correspondence(ctx)
        except common.GiveUp as e:
            ctx.notes.append("correspondence cut short: %s" % e)
        except common.DeadlinePassed as e:
            broken.append("correspondence run did not finish within %d s on this tree" % deadline.seconds)
            ctx.oblige("correspondence:completed", False, "deadline")
        except common.subprocess.TimeoutExpired:
            print("harness timeout in correspondence", file=sys.stderr)
            return 2
        except Exception as e:
            # the correspondence run could not be completed on this tree (it completes on the tree the
            # framework was built for): the tie between model and code no longer checks
            ctx.notes.append("correspondence crashed: " + traceback.format_exc()[-2500:])
            broken.append("correspondence run could not be completed: %r" % (e,))
            ctx.oblige("correspondence:completed", False, repr(e)[:300])
        suites = sorted({m["suite"] for m in ctx.mismatches})
        for s in getattr(mod, "SUITES", []):
            ctx.oblige("correspondence:" + s, s not in suites)
        for s in suites:
            if s not in getattr(mod, "SUITES", []):
                ctx.oblige("correspondence:" + s, False)
            n = sum(1 for m in ctx.mismatches if m["suite"] == s)
            broken.append("correspondence suite %s: %d disagreement(s) between model and implementation" % (s, n))
    else:
        for s in getattr(mod, "SUITES", []):
            ctx.oblige("correspondence:" + s, False, "model not built")

    # ---------------- D: oracle on the real code ----------------------------------------
    try:
        mod.oracle(ctx)
    except common.GiveUp as e:
        ctx.notes.append("oracle cut short: %s" % e)
    except common.DeadlinePassed as e:
        broken.append("property oracle did not finish within %d s on this tree" % deadline.seconds)
        ctx.oblige("oracle:completed", False, "deadline")
    except common.subprocess.TimeoutExpired:
        print("harness timeout in oracle", file=sys.stderr)
        return 2
    except Exception as e:
        ctx.notes.append("oracle crashed: " + traceback.format_exc()[-2500:])
        broken.append("property oracle could not be completed: %r" % (e,))
        ctx.oblige("oracle:completed", False, repr(e)[:300])
    if broken and not new_failures(ctx, pid):
        # search mode: bigger budget, seeded by the disagreeing inputs
        ctx.search_mode = True
        ctx.notes.append("search mode entered: " + " | ".join(broken)[:1000])
        try:
            if not deadline.passed:
                mod.oracle(ctx)
        except common.DeadlinePassed:
            ctx.notes.append("search-mode oracle cut by the deadline")
        except Exception:
            ctx.notes.append("search-mode oracle crashed: " + traceback.format_exc()[-1500:])
    deadline.disarm()

    return verdict(ctx, mod, broken)


def new_failures(ctx, pid):
    known = common.known_for(pid)
    return [f for f in ctx.failures if f["signature"] not in known]


def verdict(ctx, mod, broken):
    pid = ctx.pid
    known = common.known_for(pid)
    seen_known = {}
    fresh = []
    for f in ctx.failures:
        if f["signature"] in known:
            seen_known.setdefault(f["signature"], f)
        else:
            fresh.append(f)
    for sig, f in sorted(seen_known.items()):
        print("KNOWN-FINDING: property=%s %s [%s]" % (pid, known[sig].get("desc", f["desc"]), sig))
    rc = 0
    replay_path = None
    if fresh or broken:
        os.makedirs(os.path.join(VERIF, "replays"), exist_ok=True)
        replay_path = os.path.join(VERIF, "replays", "%s-%d-%d.json" % (pid, ctx.seed, int(time.time())))
        first = fresh[0] if fresh else None
        common.write_json(replay_path, {
            "property": pid, "seed": ctx.seed, "tier": ctx.tier,
            "failing_input": common.jsonable(first) if first else None,
            "other_failures": common.jsonable(fresh[1:6]),
            "no_longer_checks": broken,
            "disagreements": common.jsonable(ctx.mismatches[:10]),
            "notes": ctx.notes[-6:],
        })
        if fresh:
            print("VIOLATION property=%s replay=%s" % (pid, replay_path))
            print("  failing input on the real code: %s" % fresh[0]["desc"][:400])
        else:
            print("VIOLATION property=%s replay=%s no-failing-input-found" % (pid, replay_path))
            print("  no longer checks: %s" % (" | ".join(broken))[:600])
        rc = 1
    write_evidence(ctx, mod, broken, fresh, seen_known)
    return rc


def write_evidence(ctx, mod, broken, fresh, seen_known):
    obligations = len(ctx.obligations)
    discharged = sum(1 for o in ctx.obligations if o[1])
    ev = {
        "property_id": ctx.pid,
        "tier": ctx.tier,
        "seed": ctx.seed,
        "level": "proof",
        "coverage": {
            "obligations": obligations,
            "discharged": discharged,
            "obligation_list": [{"name": n, "ok": ok, "detail": d} for n, ok, d in ctx.obligations],
            "checker_cmd": "cd lean && lake build %s && lake env lean .lake/audit_%s.lean   (run by ./check %s)" % (
                " ".join(mod.LEAN_MODEL_TARGETS + mod.LEAN_PROOF_TARGETS), ctx.pid, ctx.pid),
            "trusted_base": common.TRUSTED_BASE + list(getattr(mod, "TRUSTED", [])),
            "theorem_axioms": ctx.axioms,
            "evaluations": ctx.evaluations,
            "distinct_nontrivial": len(ctx.nontrivial),
            "rule": getattr(mod, "RULE", ""),
            "samples": common.jsonable(ctx.samples) or ["(no samples)"],
            "correspondence_cases": ctx.corr_cases,
            "correspondence_disagreements": len(ctx.mismatches),
            "input_distribution": ctx.dist,
            "known_findings_reproduced": sorted(seen_known),
            "no_longer_checks": broken,
            "exhaustive": False,
        },
        "assumptions": list(getattr(mod, "ASSUMPTIONS", [])),
        "wall_s": round(time.time() - ctx.t0, 2),
        "violations": len(fresh) + (1 if (broken and not fresh) else 0),
    }
    # runs against a patched copy of the repository (VERIF_REPO, seeded-defect trials) must not overwrite the
    # evidence of the real tree
    evdir = os.environ.get("VERIF_EVIDENCE_DIR") or (os.path.join(VERIF, "evidence") if common.REPO == "/repo"
                                                      else os.path.join("/tmp", "verif-evidence-scratch"))
    common.write_json(os.path.join(evdir, "%s.json" % ctx.pid), ev)


if __name__ == "__main__":
    try:
        sys.exit(main())
    except common.subprocess.TimeoutExpired as e:
        print("harness timeout: %r" % e, file=sys.stderr)
        sys.exit(2)
    except SystemExit:
        raise
    except BaseException:
        traceback.print_exc()
        sys.exit(2)
